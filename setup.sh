#!/bin/sh
# Nothing to compile: the harness is pure Python run by /venv/bin/python against /repo's working tree.
# This only self-tests that the interpreter, sqlglot (editable -> /repo) and the engines import.
set -e
cd "$(dirname "$0")"
PYTHONDONTWRITEBYTECODE=1 /venv/bin/python - <<'PY'
import sys, os
sys.path.insert(0, os.getcwd())
import sqlglot, duckdb, sqlite3
assert os.path.realpath(sqlglot.__file__).startswith("/repo/"), sqlglot.__file__
import vlib.run
print("setup ok: sqlglot from", os.path.dirname(sqlglot.__file__), "duckdb", duckdb.__version__, "sqlite", sqlite3.sqlite_version)
PY
