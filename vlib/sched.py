"""E3 - controlled thread scheduler for stateless, preemption-bounded exploration of real threads.

One fork per execution (from a parent that has imported the sqlglot core but no dialect module), worker
threads under sys.settrace, a scheduling point at every `line` event inside selected functions (chosen by
function NAME and file, so edits are followed), one semaphore per thread as the baton, and every blocking
primitive on the path made scheduler-aware:
  * importlib._bootstrap._ModuleLock  -> VModuleLock (yields to the scheduler instead of sleeping)
  * sqlglot.dialects._import_lock / sqlglot.optimizer._import_lock -> VRLock
"No enabled thread" is a deadlock. A schedule is a dict {global point index: thread id to switch to}.
"""
from __future__ import annotations

from vlib.paths import SQLGLOT
import _thread
import importlib._bootstrap as ib
import os
import pickle
import sys
import threading
import traceback
import typing as t

SEL_FILES = (SQLGLOT + "/dialects/dialect.py", SQLGLOT + "/dialects/__init__.py", SQLGLOT + "/generator.py",
             SQLGLOT + "/optimizer/__init__.py")
SEL_FUNCS = {"__new__", "_try_load", "get", "__getitem__", "classes", "get_or_raise", "__getattr__", "__init__", "_build_dispatch",
             "__eq__", "__hash__"}
HORIZON = 60000


class Deadlock(Exception):
    pass


class Sched:
    def __init__(self, n: int, schedule: dict[int, int], first: int = 0):
        self.n = n
        self.sems = [threading.Semaphore(0) for _ in range(n)]
        self.state = ["ready"] * n          # ready / blocked / done
        self.cond: list[t.Callable[[], bool] | None] = [None] * n
        self.points = 0
        self.schedule = schedule
        self.first = first
        self.trace: list = []               # (point index, thread, location) for preemptions taken
        self.locations: list = []           # location of every point (thread, file:func:line)
        self.interleaved = False
        self.deadlock = False

    def me(self) -> int:
        return threading.current_thread().vt_id  # type: ignore[attr-defined]

    def _switch(self, me: int, to: int) -> None:
        self.sems[to].release()
        self.sems[me].acquire()

    def _pick_other(self, me: int) -> int | None:
        for j in range(self.n):
            if j != me and (self.state[j] == "ready" or (self.state[j] == "blocked" and self.cond[j] and self.cond[j]())):
                return j
        return None

    def point(self, desc) -> None:
        me = self.me()
        k = self.points
        self.points += 1
        if k > HORIZON:
            raise Deadlock("horizon exceeded")
        self.locations.append((me, desc))
        target = self.schedule.get(k)
        if target is not None and target != me and self.state[target] != "done":
            if self.state[target] == "blocked" and not (self.cond[target] and self.cond[target]()):
                return
            self.trace.append((k, me, desc))
            self.interleaved = True
            self.state[target] = "ready"
            self._switch(me, target)

    def block(self, cond: t.Callable[[], bool], what: str = "") -> None:
        """Wait until cond() is true, yielding to the other threads."""
        me = self.me()
        self.waiting = getattr(self, "waiting", {})
        self.waiting[me] = what
        while not cond():
            self.state[me] = "blocked"
            self.cond[me] = cond
            o = self._pick_other(me)
            if o is None:
                self.deadlock = True
                raise Deadlock(f"thread {me} blocked and no other thread can run; waiting for: {self.waiting}")
            self.state[o] = "ready"
            self._switch(me, o)
            self.state[me] = "ready"
        self.cond[me] = None

    def done(self) -> None:
        me = self.me()
        self.state[me] = "done"
        for j in range(self.n):
            if j != me and self.state[j] in ("ready", "blocked"):
                if self.state[j] == "blocked" and not (self.cond[j] and self.cond[j]()):
                    continue
                self.state[j] = "ready"
                self.sems[j].release()
                return
        # nobody runnable: if someone is still blocked it is a deadlock; wake them so they can report
        for j in range(self.n):
            if j != me and self.state[j] == "blocked":
                self.deadlock = True
                self.sems[j].release()
                return


SCHED: Sched | None = None


class VModuleLock(ib._ModuleLock):
    """importlib's per-module lock with waiting made visible to the scheduler."""

    def acquire(self):
        tid = _thread.get_ident()
        with ib._BlockingOnManager(tid, self):
            while True:
                with self.lock:
                    if self.count == [] or self.owner == tid:
                        self.owner = tid
                        self.count.append(True)
                        return True
                    if self.has_deadlock():
                        raise ib._DeadlockError(f"deadlock detected by {self!r}")
                if SCHED is None or not hasattr(threading.current_thread(), "vt_id"):
                    raise RuntimeError("module lock contended outside the scheduler")
                SCHED.block(lambda: self.count == [], f"module lock {self.name}")

    def release(self):
        tid = _thread.get_ident()
        with self.lock:
            if self.owner != tid:
                raise RuntimeError("cannot release un-acquired lock")
            self.count.pop()
            if not len(self.count):
                self.owner = None


class VRLock:
    """Scheduler-aware re-entrant lock (replaces threading.RLock objects in sqlglot modules)."""

    def __init__(self, name: str):
        self.name = name
        self.owner: int | None = None
        self.depth = 0

    def acquire(self, blocking=True, timeout=-1):
        tid = _thread.get_ident()
        if self.owner == tid:
            self.depth += 1
            return True
        if self.owner is not None:
            if SCHED is None or not hasattr(threading.current_thread(), "vt_id"):
                raise RuntimeError("lock contended outside the scheduler")
            SCHED.block(lambda: self.owner is None, f"lock {self.name}")
        self.owner = tid
        self.depth = 1
        return True

    def release(self):
        self.depth -= 1
        if self.depth == 0:
            self.owner = None

    __enter__ = acquire

    def __exit__(self, *a):
        self.release()


_MUT = {"append", "update", "pop", "setdefault", "add", "clear", "extend", "insert", "remove", "discard", "popitem", "move_to_end"}
_WRITERS: set[tuple[str, str]] | None = None


def shared_writers() -> set[tuple[str, str]]:
    """(file, qualified function name) of EVERY function in the package that writes state shared between threads, found by an
    AST scan of the current tree: `global` declarations; stores / deletes / mutating method calls / setattr on a module-level
    name, on cls / klass / type(x) / x.__class__ / globals() / sys.modules, or on self.<NAME> where NAME is a class-body
    attribute that no method rebinds on the instance; functions wrapped by a cache decorator. Lines of these functions are
    scheduling points wherever they live, so a new lazily filled table gets explored without naming it here."""
    global _WRITERS
    if _WRITERS is not None:
        return _WRITERS
    import ast

    trees = {}
    class_names: set[str] = set()
    inst_names: set[str] = set()
    for dp, _, fns in os.walk(SQLGLOT):
        for f in fns:
            if f.endswith(".py"):
                p = os.path.join(dp, f)
                try:
                    trees[p] = ast.parse(open(p, encoding="utf-8").read())
                except SyntaxError:
                    continue
    for tree in trees.values():
        for n in ast.walk(tree):
            if isinstance(n, ast.ClassDef):
                for st in n.body:
                    tg = st.targets if isinstance(st, ast.Assign) else [st.target] if isinstance(st, ast.AnnAssign) else []
                    class_names.update(x.id for x in tg if isinstance(x, ast.Name))
            elif isinstance(n, (ast.Assign, ast.AnnAssign, ast.AugAssign)):
                tg = n.targets if isinstance(n, ast.Assign) else [n.target]
                for x in tg:
                    if isinstance(x, ast.Attribute) and isinstance(x.value, ast.Name) and x.value.id == "self":
                        inst_names.add(x.attr)
    class_only = class_names - inst_names

    def base(e):
        while isinstance(e, (ast.Attribute, ast.Subscript)):
            e = e.value
        return e

    out: set[tuple[str, str]] = set()
    for p, tree in trees.items():
        modnames: set[str] = set()
        for n in tree.body:
            if isinstance(n, (ast.Assign, ast.AnnAssign)):
                for x in (n.targets if isinstance(n, ast.Assign) else [n.target]):
                    if isinstance(x, ast.Name):
                        modnames.add(x.id)
            elif isinstance(n, ast.ClassDef):
                modnames.add(n.name)

        def shared_target(tgt, bound) -> bool:
            b = base(tgt)
            if isinstance(b, ast.Name):
                if b.id in ("cls", "klass", "mcs"):
                    return True
                if b.id in modnames and b.id not in bound:
                    return True
                if b.id == "self":
                    e = tgt
                    while isinstance(e, (ast.Attribute, ast.Subscript)) and not (isinstance(e, ast.Attribute) and isinstance(e.value, ast.Name)):
                        e = e.value
                    # self.NAME[...] / self.NAME.attr / self.NAME.mutate() on a class-level table (plain `self.NAME = v` rebinding is instance-local)
                    if isinstance(e, ast.Attribute) and e is not tgt and e.attr in class_only:
                        return True
                    if isinstance(tgt, ast.Attribute) and isinstance(tgt.value, ast.Attribute) and tgt.value.attr == "__class__":
                        return True
            if isinstance(b, ast.Call) and isinstance(b.func, ast.Name) and b.func.id in ("type", "globals", "vars"):
                return True
            if isinstance(b, ast.Name) and b.id == "sys":
                return True
            e = tgt
            while isinstance(e, (ast.Attribute, ast.Subscript)):
                if isinstance(e, ast.Attribute) and e.attr == "__class__":
                    return True
                e = e.value
            return False

        def visit(node, stack):
            for ch in ast.iter_child_nodes(node):
                if isinstance(ch, ast.ClassDef):
                    visit(ch, stack + [ch.name])
                elif isinstance(ch, (ast.FunctionDef, ast.AsyncFunctionDef)):
                    qn = ".".join(stack + [ch.name])
                    bound = {a.arg for a in ch.args.args + ch.args.kwonlyargs + ch.args.posonlyargs}
                    bound |= {x.id for x in ast.walk(ch) if isinstance(x, ast.Name) and isinstance(x.ctx, ast.Store)}
                    globs = {g for x in ast.walk(ch) if isinstance(x, ast.Global) for g in x.names}
                    bound -= globs
                    hit = bool(globs) or any("cache" in ast.unparse(d) for d in ch.decorator_list)
                    for x in ast.walk(ch):
                        if hit:
                            break
                        tg = []
                        if isinstance(x, ast.Assign):
                            tg = x.targets
                        elif isinstance(x, (ast.AugAssign, ast.AnnAssign)):
                            tg = [x.target]
                        elif isinstance(x, ast.Delete):
                            tg = x.targets
                        for tgt in tg:
                            for el in (tgt.elts if isinstance(tgt, (ast.Tuple, ast.List)) else [tgt]):
                                if isinstance(el, (ast.Attribute, ast.Subscript)) and shared_target(el, bound):
                                    hit = True
                        if isinstance(x, ast.Call):
                            if isinstance(x.func, ast.Attribute) and x.func.attr in _MUT and shared_target(x.func, bound):
                                hit = True
                            if isinstance(x.func, ast.Name) and x.func.id in ("setattr", "delattr") and x.args:
                                a0 = x.args[0]
                                if shared_target(ast.Attribute(value=a0, attr="_", ctx=ast.Store()), bound):
                                    hit = True
                    if hit:
                        out.add((p, qn))
                    visit(ch, stack + [ch.name, "<locals>"])
                else:
                    visit(ch, stack)

        visit(tree, [])
    _WRITERS = out
    return out


def selected(co) -> bool:
    """Scheduling points live in: every function of the two lazy-loading package modules; every method of the
    dialect metaclass and of Dialect; in generator.py the module-level functions (dispatch-table construction,
    whatever they are called) and Generator.__init__. Chosen structurally, so renames / extractions are followed."""
    fn = co.co_filename
    if (fn, co.co_qualname) in shared_writers():
        return True
    if co.co_name == "<module>" and fn in (SQLGLOT + "/optimizer/optimizer.py", SQLGLOT + "/optimizer/__init__.py"):
        return True  # top-level statements of lazily imported modules: another thread may see them half-initialised
    if fn not in SEL_FILES:
        return False
    qn = co.co_qualname
    if fn.endswith("/generator.py"):
        return "." not in qn or qn == "Generator.__init__" or "<locals>" in qn and qn.split(".")[0] in ("Generator",) and False
    if fn.endswith("/dialects/dialect.py"):
        return qn.startswith("_Dialect.") or qn.startswith("Dialect.") and co.co_name in SEL_FUNCS
    return True


def extent_writers() -> set[tuple[str, str]]:
    """Writers of shared state found by the AST scan OUTSIDE the hand-selected files (class-construction hooks excepted):
    while one of them is on a thread's stack, every line of sqlglot code that thread executes is a scheduling point, so a table
    that is published first and filled by a callee afterwards can be caught half-filled."""
    global _EXTENT
    if _EXTENT is None:
        _EXTENT = {w for w in shared_writers() if w[0] not in SEL_FILES and not w[1].endswith("__init_subclass__")}
    return _EXTENT


_EXTENT: set[tuple[str, str]] | None = None


_IN_EXTENT: dict[int, int] = {}   # thread id -> number of extent-writer frames on its stack


def _tracer(frame, event, arg):
    co = frame.f_code
    if (co.co_filename, co.co_qualname) in extent_writers():
        tid = _thread.get_ident()
        _IN_EXTENT[tid] = _IN_EXTENT.get(tid, 0) + 1
        return _local_extent_root
    if selected(co):
        return _local
    if _IN_EXTENT.get(_thread.get_ident()) and co.co_filename.startswith(SQLGLOT):
        return _local
    return None


def _local_extent_root(frame, event, arg):
    if event == "return":
        tid = _thread.get_ident()
        _IN_EXTENT[tid] = _IN_EXTENT.get(tid, 1) - 1
        return _local_extent_root
    return _local(frame, event, arg) and _local_extent_root


def _local(frame, event, arg):
    if event == "line" and SCHED is not None:
        co = frame.f_code
        SCHED.point(f"{os.path.basename(co.co_filename)}:{co.co_name}:{frame.f_lineno}")
    return _local


def run_in_child(bodies: list[t.Callable[[], t.Any]], schedule: dict[int, int], first: int, counters: bool = True):
    """Executed in the forked child. Returns a picklable result dict."""
    global SCHED
    for b in bodies:
        # harnesses about call-time state start with their dialects loaded (sequentially, before any thread exists): their
        # scheduling points are then the call-time ones only
        for name in getattr(b, "preload", ()):
            from sqlglot.dialects.dialect import Dialect as _D

            _D.get_or_raise(name or None)
    import sqlglot  # noqa  (already imported in the parent)
    import sqlglot.dialects as sd
    import sqlglot.optimizer as so
    from sqlglot.dialects import dialect as dmod

    ib._ModuleLock = VModuleLock
    for mod, attr in ((sd, "_import_lock"), (so, "_import_lock")):
        if not hasattr(mod, attr):
            return {"harness_error": f"seam missing: {mod.__name__}.{attr}"}
        setattr(mod, attr, VRLock(f"{mod.__name__}.{attr}"))
    new_calls: dict[str, int] = {}
    exec_calls: dict[str, int] = {}
    if counters:
        orig_new = dmod._Dialect.__new__

        def counting_new(cls, clsname, bases, attrs):
            new_calls[clsname] = new_calls.get(clsname, 0) + 1
            return orig_new(cls, clsname, bases, attrs)

        dmod._Dialect.__new__ = staticmethod(counting_new)
        import importlib.machinery as mach

        orig_exec = mach.SourceFileLoader.exec_module

        def counting_exec(self, module):
            if module.__name__.startswith("sqlglot."):
                exec_calls[module.__name__] = exec_calls.get(module.__name__, 0) + 1
                if SCHED is not None and hasattr(threading.current_thread(), "vt_id"):
                    SCHED.point(f"import:exec_module:{module.__name__}")  # module is in sys.modules but its body has not run yet
            return orig_exec(self, module)

        mach.SourceFileLoader.exec_module = counting_exec
    n = len(bodies)
    SCHED = Sched(n, schedule, first)
    out: list = [None] * n

    def wrap(i):
        threading.current_thread().vt_id = i
        SCHED.sems[i].acquire()
        sys.settrace(_tracer)
        try:
            out[i] = ("ok", bodies[i]())
        except Deadlock as e:
            out[i] = ("deadlock", str(e))
        except BaseException as e:
            tb = traceback.extract_tb(e.__traceback__)
            where = next((f"{os.path.basename(fr.filename)}:{fr.name}" for fr in reversed(tb) if SQLGLOT in fr.filename), "?")
            out[i] = ("exc", type(e).__name__, str(e)[:200], where)
        finally:
            sys.settrace(None)
            SCHED.done()

    ths = [threading.Thread(target=wrap, args=(i,), daemon=True) for i in range(n)]
    for th in ths:
        th.start()
    SCHED.sems[first].release()
    hung = False
    for th in ths:
        th.join(90)  # real-time guard only for hangs outside the virtual locks; normal executions take < 1 s
        if th.is_alive():
            hung = True
    registry = {}
    try:
        registry = {k: id(v) for k, v in dmod.Dialect._classes.items()}  # type: ignore[attr-defined]
    except Exception:
        pass
    return {"out": out, "points": SCHED.points, "trace": SCHED.trace, "interleaved": SCHED.interleaved, "deadlock": SCHED.deadlock or hung,
            "hung": hung, "new_calls": new_calls, "exec_calls": exec_calls, "locations": SCHED.locations if not schedule else None}


def forked(bodies, schedule: dict[int, int], first: int = 0):
    r, w = os.pipe()
    pid = os.fork()
    if pid == 0:
        os.close(r)
        try:
            res = run_in_child(bodies, schedule, first)
        except BaseException:
            res = {"harness_error": traceback.format_exc()}
        try:
            os.write(w, pickle.dumps(res))
        finally:
            os._exit(0)
    os.close(w)
    chunks = []
    while True:
        c = os.read(r, 1 << 16)
        if not c:
            break
        chunks.append(c)
    os.close(r)
    os.waitpid(pid, 0)
    data = b"".join(chunks)
    if not data:
        return {"harness_error": "child produced no result"}
    return pickle.loads(data)
