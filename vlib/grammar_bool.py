"""G_bool - well-typed boolean / integer expressions over BOOLEAN columns p q r and INT columns x y.

Precedence-stratified so that the text needs no redundant parentheses: `bo` / `io` are operand positions
(leaf, predicate, or a parenthesised connector / arithmetic expression at zero extra cost); redundant
parentheses are a construct of their own."""
from __future__ import annotations

import functools

from vlib.denum import A, Grammar

CMPS = [("eq", "="), ("neq", "<>"), ("lt", "<"), ("lte", "<="), ("gt", ">"), ("gte", ">=")]


@functools.lru_cache(None)
def bool_grammar() -> Grammar:
    bleaf = [
        A("b.p", 0, "p"), A("b.q", 0, "q"),
        A("b.r", 1, "r"), A("b.true", 1, "TRUE"), A("b.false", 1, "FALSE"), A("b.null", 1, "NULL"),
    ]
    ileaf = [
        A("i.x", 0, "x"), A("i.1", 0, "1"),
        A("i.2", 1, "2"), A("i.y", 1, "y"), A("i.0", 1, "0"), A("i.3", 1, "3"), A("i.null", 1, "NULL"),
    ]
    pred = []
    for tag, op in CMPS:
        pred.append(A(f"cmp.{tag}", 1, "{io} " + op + " {io}"))
    pred += [
        A("between", 1, "{io} BETWEEN {io} AND {io}"),
        A("not_between", 1, "{io} NOT BETWEEN {io} AND {io}"),
        A("is_null", 1, "{io} IS NULL"),
        A("is_not_null", 1, "{io} IS NOT NULL"),
        A("b_is_null", 1, "{bop} IS NULL"),
        A("is_true", 1, "{bop} IS TRUE"),
        A("is_false", 1, "{bop} IS FALSE"),
        A("is_not_true", 1, "{bop} IS NOT TRUE"),
        A("in", 1, "{io} IN ({i}, {i})"),
        A("not_in", 1, "{io} NOT IN ({i}, {i})"),
        A("in_null", 1, "{io} IN ({i}, NULL)"),
        A("in_one", 1, "{io} IN ({i})"),
        A("b_eq", 1, "{bop} = {bop}"),
        A("b_neq", 1, "{bop} <> {bop}"),
        A("b_coalesce", 1, "COALESCE({b}, {b})"),
        A("b_case", 1, "CASE WHEN {b} THEN {b} ELSE {b} END"),
        A("b_case_noelse", 1, "CASE WHEN {b} THEN {b} END"),
        A("b_if", 1, "IF({b}, {b}, {b})"),
    ]
    conn = [
        A("and", 1, "{bo} AND {bo}"),
        A("or", 1, "{bo} OR {bo}"),
        A("not", 1, "NOT {bo}"),
        A("and3", 2, "{bo} AND {bo} AND {bo}"),
        A("or3", 2, "{bo} OR {bo} OR {bo}"),
        A("and_or", 2, "{bo} AND {bo} OR {bo}"),
        A("or_and", 2, "{bo} OR {bo} AND {bo}"),
    ]
    b = bleaf + pred + conn + [A("b.paren", 1, "({b})")]
    bo = bleaf + pred + [A("b.wrap", 0, "({bc})"), A("b.paren", 1, "(({b}))")]
    bop = bleaf + [A("b.wrapp", 0, "({bnl})")]
    arith = [
        A("add", 1, "{io} + {io}"),
        A("sub", 1, "{io} - {io}"),
        A("mul", 1, "{io} * {io}"),
        A("neg", 1, "-{io}"),
    ]
    ifun = [
        A("i_coalesce", 1, "COALESCE({i}, {i})"),
        A("i_case", 1, "CASE WHEN {b} THEN {i} ELSE {i} END"),
        A("i_case_noelse", 1, "CASE WHEN {b} THEN {i} END"),
        A("i_case_simple", 1, "CASE {i} WHEN {i} THEN {i} ELSE {i} END"),
        A("i_if", 1, "IF({b}, {i}, {i})"),
        A("i_cast", 1, "CAST({i} AS INT)"),
        A("i_nullif", 1, "NULLIF({i}, {i})"),
    ]
    i = ileaf + arith + ifun + [A("i.paren", 1, "({i})")]
    io = ileaf + ifun + [A("i.wrap", 0, "({ic})")]
    return Grammar({"b": b, "bo": bo, "bc": conn, "bop": bop, "bnl": pred + conn, "i": i, "io": io, "ic": arith},
                   depth_nts=("b", "bo", "bc", "bop", "bnl", "i", "io", "ic"))


@functools.lru_cache(None)
def expressions(k: int, depth: int = 6, start: str = "b") -> tuple:
    return bool_grammar().enumerate(start, k, depth)


def focused_families(full: bool = False) -> list[tuple[str, str]]:
    """Complete products over one mechanism's parameters, independent of k: (family tag, sql)."""
    out = []
    ops = [op for _, op in CMPS]
    lits = ["1", "2", "3"]
    for o1 in ops:
        for o2 in ops:
            for l1 in lits:
                for l2 in lits:
                    for conn in ("AND", "OR"):
                        base = f"x {o1} {l1} {conn} x {o2} {l2}"
                        out.append(("range", base))
                        out.append(("range.not", f"NOT ({base})"))
                        if l1 == "1":
                            out.append(("range.flip", f"{l1} {o1} x {conn} x {o2} {l2}"))
    for A_ in ("p", "x = 1"):
        for Ap in (A_, f"NOT {A_}" if A_ == "p" else f"NOT ({A_})"):
            for c1 in ("AND", "OR"):
                for c2 in ("AND", "OR"):
                    for B in ("q", "x = 2", "NOT q"):
                        out.append(("absorb", f"{A_} {c1} ({Ap} {c2} {B})"))
                        out.append(("absorb", f"({Ap} {c2} {B}) {c1} {A_}"))
                        out.append(("absorb", f"({A_} {c2} {B}) {c1} ({Ap} {c2} {B})"))
                        out.append(("absorb", f"({A_} {c2} {B}) {c1} ({A_} {c2} NOT {B})" if B in ("q",) else f"({A_} {c2} {B}) {c1} ({A_} {c2} NOT ({B}))"))
    for c in ("1", "2"):
        for d in ("1", "3"):
            for o in ops:
                out.append(("eqarith", f"x + {c} {o} {d}"))
                out.append(("eqarith", f"x - {c} {o} {d}"))
                out.append(("eqarith", f"{c} - x {o} {d}"))
                out.append(("eqarith", f"{c} + x {o} {d}"))
                out.append(("eqarith", f"{d} {o} x + {c}"))
                out.append(("coalesce", f"COALESCE(x, {c}) {o} {d}"))
                out.append(("coalesce", f"COALESCE(x, y, {c}) {o} {d}"))
                out.append(("coalesce", f"{d} {o} COALESCE(x, {c})"))
    for cond in ("TRUE", "FALSE", "NULL", "1 = 1", "1 = 2", "NULL = 1", "NOT NULL"):
        out.append(("constcond", f"CASE WHEN {cond} THEN x ELSE y END = 1"))
        out.append(("constcond", f"CASE WHEN {cond} THEN p ELSE q END"))
        out.append(("constcond", f"CASE WHEN {cond} THEN p WHEN q THEN r END"))
        out.append(("constcond", f"IF({cond}, p, q)"))
        out.append(("constcond", f"CASE WHEN p THEN q WHEN {cond} THEN r ELSE p END"))
        out.append(("constcond", f"{cond} AND p"))
        out.append(("constcond", f"p OR {cond}"))
        out.append(("constcond", f"NOT ({cond})"))
        out.append(("constcond", f"NOT ({cond} AND p)"))
        out.append(("constcond", f"({cond}) = p"))
    # conditionals whose BRANCHES are constants / the condition itself (IF(c, TRUE, FALSE) is not c when c is NULL), every
    # condition kind x every branch pair x every context a rule may look at (parent connector, NOT, comparison, nested)
    conds = ["p", "x > 1", "x = y", "x IS NULL", "x IN (1, 2)", "x BETWEEN 1 AND 2", "NOT p", "p AND q", "NULL"] if full else ["p", "x > 1", "x IS NULL", "x IN (1, 2)", "NULL"]
    branches = ["TRUE", "FALSE", "NULL", "p", "q"]
    ctxs = (["{e}", "q AND {e}", "{e} OR q", "NOT {e}", "NOT (q AND {e})", "({e}) = TRUE", "({e}) IS NULL", "COALESCE({e}, q)", "r AND (q OR {e})"] if full
            else ["{e}", "q AND {e}", "NOT {e}", "({e}) = TRUE", "r AND (q OR {e})"])
    for c in conds:
        for t_ in branches:
            for f_ in branches:
                if t_ == f_ and t_ in ("p", "q"):
                    continue
                forms = [f"IF({c}, {t_}, {f_})", f"CASE WHEN {c} THEN {t_} ELSE {f_} END"]
                if f_ == "NULL":
                    forms.append(f"CASE WHEN {c} THEN {t_} END")
                for form in forms:
                    for ctx in ctxs:
                        out.append(("constbranch", ctx.format(e=form)))
    seen, res = set(), []
    for fam, sql in out:
        if sql not in seen:
            seen.add(sql)
            res.append((fam, sql))
    return res
