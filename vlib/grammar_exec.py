"""G_exec - queries of the executor's fragment over x(a INT, b INT), y(b INT, c INT).
Also used (with extensions) for C03 / C02."""
from __future__ import annotations

import functools

from vlib.denum import A, Grammar

SCHEMA = {"x": {"a": "INT", "b": "INT"}, "y": {"b": "INT", "c": "INT"}}
CMPS = [("eq", "="), ("neq", "<>"), ("lt", "<"), ("lte", "<="), ("gt", ">"), ("gte", ">=")]


def expr_rules(prefix: str, cols: list[str], free: int = 1):
    """int expression `e` and condition `c` nonterminals over the given column spellings."""
    e, c = prefix + "e", prefix + "c"
    eo, co = prefix + "eo", prefix + "co"
    leaves = [A(f"col.{cols[0]}", 0, cols[0]), A("lit.1", 0, "1")]
    leaves += [A(f"col.{x}", 1, x) for x in cols[1:]]
    leaves += [A("lit.2", 1, "2"), A("lit.null", 1, "NULL"), A("lit.0", 1, "0")]
    arith = [
        A("add", 1, "{%s} + {%s}" % (eo, eo)), A("sub", 1, "{%s} - {%s}" % (eo, eo)), A("mul", 1, "{%s} * {%s}" % (eo, eo)),
        A("mod", 1, "{%s} %% 2" % eo),
    ]
    efun = [
        A("case", 1, "CASE WHEN {%s} THEN {%s} ELSE {%s} END" % (c, e, e)),
        A("case_noelse", 1, "CASE WHEN {%s} THEN {%s} END" % (c, e)),
        A("coalesce", 1, "COALESCE({%s}, {%s})" % (e, e)),
    ]
    conds = [A(f"cmp.{t}", 1, "{%s} %s {%s}" % (eo, op, eo)) for t, op in CMPS]
    conds += [
        A("in", 1, "{%s} IN (1, 2)" % eo), A("in_null", 1, "{%s} IN (1, NULL)" % eo), A("not_in", 1, "{%s} NOT IN (1, 2)" % eo),
        A("not_in_null", 1, "{%s} NOT IN (1, NULL)" % eo), A("between", 1, "{%s} BETWEEN 1 AND 2" % eo),
        A("is_null", 1, "{%s} IS NULL" % eo), A("is_not_null", 1, "{%s} IS NOT NULL" % eo),
    ]
    conn = [A("and", 1, "{%s} AND {%s}" % (co, co)), A("or", 1, "{%s} OR {%s}" % (co, co)), A("not", 1, "NOT {%s}" % co)]
    cdefault = [A("c.default", 0, "%s = 1" % cols[0])]
    return {
        e: leaves + arith + efun,
        eo: leaves + efun + [A("wrap", 0, "({%s})" % (prefix + "ea"))],
        prefix + "ea": arith,
        c: cdefault + conds + conn,
        co: cdefault + conds + [A("wrapc", 0, "({%s})" % (prefix + "cc"))],
        prefix + "cc": conn,
    }


@functools.lru_cache(None)
def exec_grammar(engine_extras: bool = False, opt_extras: bool = False, limit_extras: bool = False) -> Grammar:
    rules = {}
    rules.update(expr_rules("s", ["a", "b"]))                      # single table x
    rules.update(expr_rules("j", ["x.a", "x.b", "y.b", "y.c"]))    # join context
    agg = [
        A("agg.count_star", 0, "COUNT(*)"), A("agg.count", 1, "COUNT(b)"), A("agg.count_distinct", 1, "COUNT(DISTINCT b)"),
        A("agg.sum", 1, "SUM(b)"), A("agg.min", 1, "MIN(b)"), A("agg.max", 1, "MAX(b)"), A("agg.avg", 1, "AVG(b)"),
        A("agg.sum_expr", 1, "SUM({se})"), A("agg.sum_a", 1, "SUM(a)"),
    ]
    on = [
        A("on.eq", 0, "x.b = y.b"), A("on.lt", 1, "x.b < y.b"), A("on.eq_residual", 1, "x.b = y.b AND x.a > y.c"),
        A("on.eq_const", 1, "x.b = y.b AND y.c = 1"), A("on.true", 1, "1 = 1"), A("on.neq", 1, "x.b <> y.b"),
        A("on.two_keys", 1, "x.b = y.b AND x.a = y.c"), A("on.or", 1, "x.b = y.b OR x.a = y.c"), A("on.cond", 1, "{jc}"),
    ]
    # the join kind is a free (weight 0) menu: every join kind meets every ON shape within the same cost
    jk = [A("join.inner", 0, "JOIN"), A("join.left", 0, "LEFT JOIN"), A("join.right", 0, "RIGHT JOIN"), A("join.full", 0, "FULL JOIN")]
    order = [
        A("order.none", 0, ""), A("order.all", 1, " ORDER BY 1, 2"), A("order.desc", 1, " ORDER BY 1 DESC, 2"),
        A("order.nulls_first", 1, " ORDER BY 1 NULLS FIRST, 2 NULLS FIRST"), A("order.nulls_last", 1, " ORDER BY 1 NULLS LAST, 2 DESC NULLS LAST"),
        A("order.desc_nulls_first", 1, " ORDER BY 1 DESC NULLS FIRST, 2"), A("order.limit", 1, " ORDER BY 1, 2 LIMIT 1"),
        A("order.limit_offset", 1, " ORDER BY 1, 2 LIMIT 1 OFFSET 1"), A("order.first_only", 1, " ORDER BY 1"),
        A("order.limit2_desc", 1, " ORDER BY 1 DESC, 2 DESC LIMIT 2"),
    ]
    q = [
        A("scan", 0, "SELECT a, b FROM x{order}"),
        A("project", 1, "SELECT {se} AS c1, b FROM x{order}"),
        A("project2", 1, "SELECT {se} AS c1, {se} AS c2 FROM x{order}"),
        A("project_cond", 1, "SELECT a, {sc} AS c2 FROM x{order}"),
        A("filter", 1, "SELECT a, b FROM x WHERE {sc}{order}"),
        A("distinct", 1, "SELECT DISTINCT {se} AS c1, b FROM x{order}"),
        A("distinct1", 1, "SELECT DISTINCT b FROM x"),
        A("agg_nogroup", 1, "SELECT {agg} AS c1 FROM x"),
        A("agg_nogroup_filter", 1, "SELECT {agg} AS c1, COUNT(*) AS c2 FROM x WHERE {sc}"),
        A("group", 1, "SELECT a, {agg} AS c1 FROM x GROUP BY a{order}"),
        A("group_two_aggs", 1, "SELECT a, {agg} AS c1, {agg} AS c2 FROM x GROUP BY a"),
        A("group_having", 1, "SELECT a, {agg} AS c1 FROM x GROUP BY a HAVING {agg} > 1"),
        A("group_expr", 1, "SELECT a + 1 AS k, COUNT(*) AS c1 FROM x GROUP BY a + 1{order}"),
        A("group_where", 1, "SELECT b, {agg} AS c1 FROM x WHERE {sc} GROUP BY b"),
        A("join", 1, "SELECT x.a, y.c FROM x {jk} y ON {on}{order}"),
        A("join_expr", 1, "SELECT {je} AS c1, y.c FROM x {jk} y ON {on}"),
        A("join_where", 1, "SELECT x.a, y.c FROM x {jk} y ON {on} WHERE {jc}"),
        A("join_star", 1, "SELECT * FROM x {jk} y ON {on}"),
        A("join_cross", 1, "SELECT x.a, y.c FROM x CROSS JOIN y{order}"),
        A("join_comma", 1, "SELECT x.a, y.c FROM x, y WHERE {jc}"),
        A("join_using", 1, "SELECT x.a, y.c FROM x {jk} y USING (b)"),
        A("join_group", 1, "SELECT x.a, COUNT(y.c) AS n FROM x {jk} y ON {on} GROUP BY x.a"),
        A("join_self", 1, "SELECT x1.a, x2.b FROM x AS x1 {jk} x AS x2 ON x1.b = x2.a"),
        A("union", 1, "SELECT a FROM x UNION SELECT c FROM y"),
        A("union_all", 1, "SELECT a FROM x UNION ALL SELECT c FROM y"),
        A("intersect", 1, "SELECT a FROM x INTERSECT SELECT c FROM y"),
        A("except", 1, "SELECT a FROM x EXCEPT SELECT c FROM y"),
        A("union_filter", 1, "SELECT a FROM x WHERE {sc} UNION SELECT c FROM y"),
        # DISTINCT together with GROUP BY: a grouping key used only inside a many-to-one expression, or not selected at all
        A("dg.coalesce", 1, "SELECT DISTINCT COALESCE(a, 0) AS k, SUM(b) AS s FROM x GROUP BY a"),
        A("dg.is_null", 1, "SELECT DISTINCT a IS NULL AS k, COUNT(*) AS n FROM x GROUP BY a"),
        A("dg.case", 1, "SELECT DISTINCT CASE WHEN a > 1 THEN 1 ELSE 0 END AS k, COUNT(b) AS n FROM x GROUP BY a"),
        A("dg.agg_only", 1, "SELECT DISTINCT COUNT(*) AS n FROM x GROUP BY a"),
        A("dg.two_keys_one_selected", 1, "SELECT DISTINCT a, COUNT(*) AS n FROM x GROUP BY a, b"),
        # DISTINCT over a DISTINCT derived table / CTE with an aggregate or a window computed in between
        A("dd.agg", 1, "SELECT DISTINCT COUNT(*) AS n, SUM(t.a) AS s FROM (SELECT DISTINCT a FROM x) AS t"),
        A("dd.window", 1, "SELECT DISTINCT t.a, COUNT(*) OVER (PARTITION BY t.a) AS n FROM (SELECT DISTINCT a FROM x) AS t"),
        A("dd.plain", 1, "SELECT DISTINCT t.a FROM (SELECT DISTINCT a, b FROM x) AS t"),
        A("dd.cte_rownum", 1, "WITH t AS (SELECT DISTINCT a FROM x) SELECT DISTINCT ROW_NUMBER() OVER (ORDER BY t.a) AS rn FROM t"),
        A("dd.join", 1, "SELECT DISTINCT t.a, y.c FROM (SELECT DISTINCT a, b FROM x) AS t LEFT JOIN y ON t.b = y.b"),
        # both operands read the SAME table (under its own name / under the same alias / under two aliases), with different filters
        A("same.union_all", 1, "SELECT a FROM x UNION ALL SELECT a FROM x WHERE {sc}"),
        A("same.except", 1, "SELECT a FROM x EXCEPT SELECT a FROM x WHERE {sc}"),
        A("same.intersect", 1, "SELECT a FROM x WHERE {sc} INTERSECT SELECT a FROM x"),
        A("same.union_alias", 1, "SELECT t.a FROM x AS t WHERE t.b = 1 UNION ALL SELECT t.b FROM x AS t WHERE t.a = 1"),
        A("same.union_two_aliases", 1, "SELECT t1.a FROM x AS t1 WHERE t1.b = 1 UNION ALL SELECT t2.b FROM x AS t2 WHERE t2.a = 1"),
        A("same.union_three", 1, "SELECT a FROM x WHERE a = 1 UNION ALL SELECT a FROM x WHERE a = 2 UNION ALL SELECT b FROM x"),
        A("same.derived_union", 1, "SELECT s.a FROM (SELECT a FROM x WHERE b = 1 UNION ALL SELECT a FROM x WHERE b = 2) AS s"),
        A("same.join_self", 1, "SELECT t1.a, t2.b FROM x AS t1 JOIN x AS t2 ON t1.a = t2.b WHERE t1.b = 1"),
        A("same.in_self", 1, "SELECT a FROM x WHERE a IN (SELECT b FROM x WHERE a = 1)"),
        A("union_order", 1, "SELECT a, b FROM x UNION ALL SELECT b, c FROM y ORDER BY 1, 2"),
        A("in_subquery", 1, "SELECT a, b FROM x WHERE b IN (SELECT b FROM y)"),
        A("not_in_subquery", 1, "SELECT a, b FROM x WHERE b NOT IN (SELECT b FROM y)"),
        A("in_subquery_filter", 1, "SELECT a, b FROM x WHERE {se} IN (SELECT c FROM y WHERE y.b = 1)"),
        A("exists", 1, "SELECT a, b FROM x WHERE EXISTS (SELECT 1 FROM y WHERE y.b = x.b)"),
        A("not_exists", 1, "SELECT a, b FROM x WHERE NOT EXISTS (SELECT 1 FROM y WHERE y.b = x.b)"),
        A("exists_uncorrelated", 1, "SELECT a, b FROM x WHERE EXISTS (SELECT 1 FROM y WHERE y.c = 1)"),
        A("scalar", 1, "SELECT a, (SELECT MAX(c) FROM y) AS m FROM x"),
        A("scalar_correlated", 1, "SELECT a, (SELECT MAX(c) FROM y WHERE y.b = x.b) AS m FROM x"),
        A("scalar_where", 1, "SELECT a, b FROM x WHERE b = (SELECT MAX(b) FROM y)"),
        A("scalar_count_correlated", 1, "SELECT a, (SELECT COUNT(*) FROM y WHERE y.b = x.b) AS n FROM x"),
        # correlated subqueries that mention two outer columns of the SAME NAME from different outer tables (x.b and y.b)
        A("corr2.exists_or", 1, "SELECT x.a, y.c FROM x CROSS JOIN y WHERE EXISTS (SELECT 1 FROM y AS y2 WHERE y2.b = x.b OR y2.c = y.b)"),
        A("corr2.exists_and", 1, "SELECT x.a, y.c FROM x CROSS JOIN y WHERE EXISTS (SELECT 1 FROM y AS y2 WHERE y2.b = x.b AND y2.c > y.b)"),
        A("corr2.scalar_count", 1, "SELECT x.a, y.c, (SELECT COUNT(*) FROM y AS y2 WHERE y2.b = x.b AND y2.c >= y.b) AS n FROM x CROSS JOIN y"),
        A("corr2.in_or", 1, "SELECT x.a, y.c FROM x CROSS JOIN y WHERE x.a IN (SELECT y2.c FROM y AS y2 WHERE y2.b = x.b OR y2.b = y.b)"),
        A("corr2.scalar_max_join", 1, "SELECT x.a, (SELECT MAX(y2.c) FROM y AS y2 WHERE y2.b <> x.b OR y2.c = y.b) AS m FROM x JOIN y ON x.a = y.c"),
        A("cte", 1, "WITH t AS (SELECT a, b FROM x WHERE {sc}) SELECT a, b FROM t{order}"),
        A("cte_twice", 1, "WITH t AS (SELECT a, b FROM x WHERE {sc}) SELECT t1.a, t2.b FROM t AS t1 JOIN t AS t2 ON t1.b = t2.b"),
        A("cte_agg", 1, "WITH t AS (SELECT b, COUNT(*) AS n FROM x GROUP BY b) SELECT y.c, t.n FROM y {jk} t ON y.b = t.b"),
        A("derived", 1, "SELECT s.a, s.b FROM (SELECT a, b FROM x WHERE {sc}) AS s WHERE s.b = 1"),
        A("derived_join", 1, "SELECT x.a, s.c FROM x {jk} (SELECT b, c FROM y WHERE c = 1) AS s ON x.b = s.b"),
        A("derived_limit", 1, "SELECT s.a FROM (SELECT a, b FROM x ORDER BY 1, 2 LIMIT 1) AS s WHERE s.a = 1"),
        A("derived_distinct", 1, "SELECT s.b FROM (SELECT DISTINCT b FROM x) AS s WHERE s.b = 1"),
    ]
    if engine_extras:
        q += [
            A("intersect_all", 1, "SELECT a FROM x INTERSECT ALL SELECT c FROM y"),
            A("except_all", 1, "SELECT a FROM x EXCEPT ALL SELECT c FROM y"),
        ]
    if limit_extras:
        q += [
            # LIMIT / OFFSET without a total order: which rows come back is free, how many is not (judged by count and
            # containment in the unlimited result)
            A("lim.scan", 1, "SELECT a, b FROM x LIMIT 1"), A("lim.offset", 1, "SELECT a, b FROM x LIMIT 1 OFFSET 1"),
            A("lim.zero", 1, "SELECT a, b FROM x LIMIT 0"), A("lim.filter", 1, "SELECT a, b FROM x WHERE {sc} LIMIT 1"),
            A("lim.union", 1, "SELECT a FROM x UNION SELECT c FROM y LIMIT 2"), A("lim.union_all", 1, "SELECT a FROM x UNION ALL SELECT c FROM y LIMIT 2"),
            A("lim.union_offset", 1, "SELECT a FROM x UNION SELECT c FROM y LIMIT 1 OFFSET 1"),
            A("lim.intersect", 1, "SELECT a FROM x INTERSECT SELECT c FROM y LIMIT 1"), A("lim.except", 1, "SELECT a FROM x EXCEPT SELECT c FROM y LIMIT 1"),
            A("lim.distinct", 1, "SELECT DISTINCT a FROM x LIMIT 1"), A("lim.distinct2", 1, "SELECT DISTINCT a FROM x LIMIT 2"),
            A("lim.group", 1, "SELECT a, COUNT(*) AS n FROM x GROUP BY a LIMIT 1"),
            A("lim.join", 1, "SELECT x.a, y.c FROM x {jk} y ON {on} LIMIT 1"), A("lim.first_key_only", 1, "SELECT a, b FROM x ORDER BY 1 LIMIT 1"),
        ]
    if opt_extras:
        q += [
            A("win.partition", 1, "SELECT a, SUM(b) OVER (PARTITION BY a) AS w FROM x"),
            A("win.rownum", 1, "SELECT a, b, ROW_NUMBER() OVER (ORDER BY a, b) AS rn FROM x"),
            A("win.derived_filter", 1, "SELECT s.a, s.w FROM (SELECT a, SUM(b) OVER (PARTITION BY a) AS w FROM x) AS s WHERE {sc_s}"),
            A("win.derived_filter_w", 1, "SELECT s.a, s.w FROM (SELECT a, COUNT(*) OVER () AS w FROM x) AS s WHERE s.a = 1"),
            A("any", 1, "SELECT a, b FROM x WHERE b = ANY (SELECT b FROM y)"),
            A("any_gt", 1, "SELECT a, b FROM x WHERE b > ANY (SELECT b FROM y)"),
            A("all_gt", 1, "SELECT a, b FROM x WHERE b > ALL (SELECT b FROM y)"),
            A("derived_group", 1, "SELECT s.a, s.n FROM (SELECT a, COUNT(*) AS n FROM x GROUP BY a) AS s WHERE {sc_s}"),
            A("derived_group_join", 1, "SELECT y.c, s.n FROM y {jk} (SELECT b, COUNT(*) AS n FROM x GROUP BY b) AS s ON y.b = s.b WHERE {jc_ys}"),
            A("derived_distinct_filter", 1, "SELECT s.a FROM (SELECT DISTINCT a, b FROM x) AS s WHERE {sc_s}"),
            A("derived_limit_filter", 1, "SELECT s.a, s.b FROM (SELECT a, b FROM x ORDER BY 1, 2 LIMIT 1) AS s WHERE {sc_s}"),
            A("derived_offset_filter", 1, "SELECT s.a, s.b FROM (SELECT a, b FROM x ORDER BY 1, 2 LIMIT 2 OFFSET 1) AS s WHERE {sc_s}"),
            A("derived_union_filter", 1, "SELECT s.a FROM (SELECT a FROM x UNION ALL SELECT c FROM y) AS s WHERE s.a = 1"),
            A("derived_nested", 1, "SELECT s2.a FROM (SELECT s.a, s.b FROM (SELECT a, b FROM x WHERE {sc}) AS s WHERE s.b = 1) AS s2 WHERE s2.a = 1"),
            A("derived_left_right", 1, "SELECT s.a, t.c FROM (SELECT a, b FROM x) AS s {jk} (SELECT b, c FROM y) AS t ON s.b = t.b WHERE {jc_st}"),
            A("cte_twice_filter", 1, "WITH t AS (SELECT a, b FROM x) SELECT t1.a, t2.b FROM t AS t1 {jk} t AS t2 ON t1.b = t2.a WHERE t1.a = 1"),
            A("cte_chain", 1, "WITH t AS (SELECT a, b FROM x WHERE {sc}), t2 AS (SELECT a FROM t WHERE b = 1) SELECT a FROM t2"),
            A("cte_unused", 1, "WITH t AS (SELECT a FROM x) SELECT c FROM y"),
            A("join_three", 1, "SELECT x.a, y.c, x2.b FROM x {jk} y ON x.b = y.b JOIN x AS x2 ON y.c = x2.a"),
            A("join_unused", 1, "SELECT x.a FROM x LEFT JOIN (SELECT DISTINCT b FROM y) AS s ON x.b = s.b"),
            A("join_unused_nodistinct", 1, "SELECT x.a FROM x LEFT JOIN y ON x.b = y.b"),
            A("where_or_join", 1, "SELECT x.a, y.c FROM x {jk} y ON x.b = y.b WHERE x.a = 1 OR y.c = 1"),
            A("in_correlated", 1, "SELECT a, b FROM x WHERE a IN (SELECT c FROM y WHERE y.b = x.b)"),
            A("not_in_correlated", 1, "SELECT a, b FROM x WHERE a NOT IN (SELECT c FROM y WHERE y.b = x.b)"),
            A("exists_or", 1, "SELECT a, b FROM x WHERE EXISTS (SELECT 1 FROM y WHERE y.b = x.b) OR a = 1"),
            A("scalar_in_where_corr", 1, "SELECT a, b FROM x WHERE a > (SELECT COUNT(*) FROM y WHERE y.b = x.b)"),
            A("scalar_sum_corr", 1, "SELECT a, b FROM x WHERE b = (SELECT SUM(c) FROM y WHERE y.b = x.b)"),
            A("group_having_expr", 1, "SELECT a, SUM(b) AS s FROM x GROUP BY a HAVING SUM(b) > 1 OR a IS NULL"),
            A("distinct_join", 1, "SELECT DISTINCT x.a FROM x {jk} y ON x.b = y.b"),
            # the outer query uses a SUBSET of the inner query's columns (projection pushdown / merging must keep
            # DISTINCT / set-operation / GROUP BY / window / LIMIT semantics of the inner query)
            A("subset.union", 1, "SELECT s.a FROM (SELECT a, b FROM x UNION SELECT b, c FROM y) AS s"),
            A("subset.union_all", 1, "SELECT s.a FROM (SELECT a, b FROM x UNION ALL SELECT b, c FROM y) AS s"),
            A("subset.intersect", 1, "SELECT s.a FROM (SELECT a, b FROM x INTERSECT SELECT b, c FROM y) AS s"),
            A("subset.except", 1, "SELECT s.a FROM (SELECT a, b FROM x EXCEPT SELECT b, c FROM y) AS s"),
            A("subset.distinct", 1, "SELECT s.a FROM (SELECT DISTINCT a, b FROM x) AS s"),
            A("subset.group", 1, "SELECT s.n FROM (SELECT a, COUNT(*) AS n FROM x GROUP BY a) AS s"),
            A("subset.group_key", 1, "SELECT s.a FROM (SELECT a, b, COUNT(*) AS n FROM x GROUP BY a, b) AS s"),
            A("subset.window", 1, "SELECT s.a FROM (SELECT a, ROW_NUMBER() OVER (ORDER BY a, b) AS rn FROM x) AS s WHERE s.a = 1"),
            A("subset.limit", 1, "SELECT s.b FROM (SELECT a, b FROM x ORDER BY 1, 2 LIMIT 1) AS s"),
            A("subset.count_star", 1, "SELECT COUNT(*) AS n FROM (SELECT a, b FROM x) AS s"),
            A("subset.count_star_distinct", 1, "SELECT COUNT(*) AS n FROM (SELECT DISTINCT a, b FROM x) AS s"),
            A("subset.count_star_union", 1, "SELECT COUNT(*) AS n FROM (SELECT a FROM x UNION SELECT c FROM y) AS s"),
            A("subset.const", 1, "SELECT 1 AS one FROM (SELECT a, b FROM x WHERE {sc}) AS s"),
            A("subset.cte_cross", 1, "WITH t AS (SELECT a, b FROM x) SELECT t1.a FROM t AS t1 CROSS JOIN t AS t2"),
            A("subset.cte_distinct_twice", 1, "WITH t AS (SELECT DISTINCT a, b FROM x) SELECT t1.a, t2.a AS a2 FROM t AS t1 JOIN t AS t2 ON t1.b = t2.b"),
            A("subset.nested", 1, "SELECT s2.a FROM (SELECT s.a, s.b FROM (SELECT DISTINCT a, b FROM x) AS s) AS s2"),
            A("subset.join_right_unused", 1, "SELECT x.a FROM x LEFT JOIN (SELECT b, COUNT(*) AS n FROM y GROUP BY b) AS s ON x.b = s.b"),
            A("subset.join_inner_unused", 1, "SELECT x.a FROM x JOIN (SELECT DISTINCT b FROM y) AS s ON x.b = s.b"),
            A("reorder.comma3", 1, "SELECT x.a, y.c FROM x, y, x AS x2 WHERE x.b = x2.a AND y.b = x2.b"),
            A("reorder.cross_where", 1, "SELECT x.a, y.c FROM x CROSS JOIN y WHERE x.b = y.b AND y.c = 1"),
            A("reorder.join_chain", 1, "SELECT x.a, y.c, x2.b FROM x JOIN x AS x2 ON TRUE JOIN y ON y.b = x.b AND y.c = x2.a"),
            # three-item join chains: first item (table / derived table or CTE with its own filter) x first join x second join x
            # what the second ON refers to x outer filter - all free menus, so every combination has cost 1
            A("chain3", 1, "{c3cte}SELECT s.a, y.c, x2.b FROM {c3first} {jk} y ON s.b = y.b {jk2} x AS x2 ON {c3on2}{c3where}"),
            # derived-table body x how the outer query uses it (projection pruning / merging must keep the body's cardinality and
            # NULL extension): 12 bodies x 6 uses, all free menus
            A("dt", 1, "{dtuse}"),
            A("having.alias", 1, "SELECT a, SUM(b) AS s FROM x GROUP BY a HAVING SUM(b) > 1 AND a > 0"),
            A("order.derived", 1, "SELECT s.a, s.b FROM (SELECT a, b FROM x ORDER BY 2, 1) AS s ORDER BY 1, 2 LIMIT 2"),
            # predicate kind x subquery body: every uncorrelated body under every subquery predicate
            A("sub.in", 1, "SELECT a, b FROM x WHERE b IN ({sub1})"),
            A("sub.not_in", 1, "SELECT a, b FROM x WHERE b NOT IN ({sub1})"),
            A("sub.any", 1, "SELECT a, b FROM x WHERE b = ANY ({sub1})"),
            A("sub.all", 1, "SELECT a, b FROM x WHERE b >= ALL ({sub1})"),
            A("sub.in_proj", 1, "SELECT a, b IN ({sub1}) AS m FROM x"),
            A("sub.in_or", 1, "SELECT a, b FROM x WHERE b IN ({sub1}) OR a = 1"),
            A("sub.exists", 1, "SELECT a, b FROM x WHERE EXISTS ({subc})"),
            A("sub.not_exists", 1, "SELECT a, b FROM x WHERE NOT EXISTS ({subc})"),
            A("sub.in_corr", 1, "SELECT a, b FROM x WHERE a IN ({subc})"),
            A("sub.scalar_agg", 1, "SELECT a, ({subagg}) AS m FROM x"),
            A("sub.scalar_agg_where", 1, "SELECT a, b FROM x WHERE b > ({subagg})"),
            A("sub.from", 1, "SELECT s.b FROM ({sub1}) AS s(b) WHERE s.b = 1"),
        ]
        rules.update(expr_rules_alias("sc_s", "s.a", "s.b") if False else {})
    rules.update({"q": q, "agg": agg, "on": on, "jk": jk, "order": order})
    if opt_extras:
        rules.update({
            "sub1": [A("s1.plain", 0, "SELECT b FROM y"), A("s1.where", 1, "SELECT b FROM y WHERE c = 1"), A("s1.group1", 1, "SELECT b FROM y GROUP BY b"),
                     A("s1.group2", 1, "SELECT b FROM y GROUP BY b, c"), A("s1.group_agg", 1, "SELECT MAX(b) FROM y GROUP BY c"),
                     A("s1.distinct", 1, "SELECT DISTINCT b FROM y"), A("s1.having", 1, "SELECT b FROM y GROUP BY b HAVING COUNT(*) > 1"),
                     A("s1.limit", 1, "SELECT b FROM y ORDER BY b LIMIT 1"), A("s1.union", 1, "SELECT b FROM y UNION ALL SELECT c FROM y"),
                     A("s1.join", 1, "SELECT y.b FROM y JOIN x AS x2 ON y.c = x2.a"), A("s1.expr", 1, "SELECT b + 1 FROM y"),
                     A("s1.coalesce", 1, "SELECT COALESCE(b, 0) FROM y"), A("s1.agg", 1, "SELECT MAX(b) FROM y"), A("s1.window", 1, "SELECT MAX(b) OVER () FROM y")],
            "subc": [A("sc.eq", 0, "SELECT y.c FROM y WHERE y.b = x.b"), A("sc.eq_const", 1, "SELECT y.c FROM y WHERE y.b = x.b AND y.c = 1"),
                     A("sc.group", 1, "SELECT y.c FROM y WHERE y.b = x.b GROUP BY y.c"), A("sc.gt", 1, "SELECT y.c FROM y WHERE y.b > x.b"),
                     A("sc.or", 1, "SELECT y.c FROM y WHERE y.b = x.b OR y.c = x.a"), A("sc.limit", 1, "SELECT y.c FROM y WHERE y.b = x.b ORDER BY y.c LIMIT 1"),
                     A("sc.two", 1, "SELECT y.c FROM y WHERE y.b = x.b AND y.c = x.a"), A("sc.distinct", 1, "SELECT DISTINCT y.c FROM y WHERE y.b = x.b"),
                     A("sc.expr", 1, "SELECT y.c + 1 FROM y WHERE y.b = x.b + 1")],
            "subagg": [A("sa.max", 0, "SELECT MAX(c) FROM y"), A("sa.count_corr", 1, "SELECT COUNT(*) FROM y WHERE y.b = x.b"), A("sa.sum_corr", 1, "SELECT SUM(c) FROM y WHERE y.b = x.b"),
                       A("sa.max_corr_two", 1, "SELECT MAX(c) FROM y WHERE y.b = x.b AND y.c > x.a"), A("sa.count_distinct", 1, "SELECT COUNT(DISTINCT c) FROM y WHERE y.b = x.b"),
                       A("sa.min_where", 1, "SELECT MIN(c) FROM y WHERE c > 1"), A("sa.count_group", 1, "SELECT COUNT(*) FROM y WHERE y.b = x.b GROUP BY y.b")],
            "dtuse": [A("u.unused_cross!", 0, "SELECT x.a FROM x CROSS JOIN ({dtbody}) AS q"), A("u.count!", 0, "SELECT COUNT(*) AS n FROM ({dtbody}) AS q"),
                      A("u.used_cross!", 0, "SELECT x.a, q.s FROM x CROSS JOIN ({dtbody}) AS q"), A("u.left_used!", 0, "SELECT x.a, q.s FROM x LEFT JOIN ({dtbody}) AS q ON x.b = q.k"),
                      A("u.left_unused!", 0, "SELECT x.a FROM x LEFT JOIN ({dtbody}) AS q ON x.b = q.k"), A("u.const_only!", 0, "SELECT 1 AS one FROM ({dtbody}) AS q"),
                      # joined on the body's (possibly aggregate) output s: the join multiplies x's rows when several body rows share s
                      A("u.left_on_s_unused!", 0, "SELECT x.a FROM x LEFT JOIN ({dtbody}) AS q ON x.b = q.s"), A("u.left_on_s_used!", 0, "SELECT x.a, q.s FROM x LEFT JOIN ({dtbody}) AS q ON x.b = q.s"),
                      A("u.inner_on_s!", 0, "SELECT x.a FROM x JOIN ({dtbody}) AS q ON x.b = q.s")],
            "dtbody": [A("b.plain!", 0, "SELECT b AS k, c AS s FROM y"), A("b.agg_bare!", 0, "SELECT SUM(c) AS s FROM y"), A("b.agg_expr!", 0, "SELECT SUM(c) * 2 AS s FROM y"),
                       A("b.agg_coalesce!", 0, "SELECT COALESCE(SUM(c), 0) AS s FROM y"), A("b.agg_count_plus!", 0, "SELECT COUNT(*) + 1 AS s FROM y"),
                       A("b.window!", 0, "SELECT SUM(c) OVER () AS s FROM y"), A("b.const!", 0, "SELECT b AS k, 1 AS s FROM y"),
                       A("b.coalesce!", 0, "SELECT b AS k, COALESCE(c, 0) AS s FROM y"), A("b.distinct!", 0, "SELECT DISTINCT c AS s FROM y"),
                       A("b.group!", 0, "SELECT c AS s FROM y GROUP BY c"), A("b.limit!", 0, "SELECT c AS s FROM y ORDER BY 1 LIMIT 1"),
                       A("b.union_nested!", 0, "(SELECT b AS k, c AS s FROM y UNION SELECT a, b FROM x) UNION ALL SELECT a, b FROM x"),
                       # grouped bodies: key not projected / only aggregates projected (one row per GROUP, not one row) / key projected
                       A("b.group_agg_nokey!", 0, "SELECT SUM(c) AS s FROM y GROUP BY b"), A("b.group_all_aggs!", 0, "SELECT COUNT(*) AS k, MAX(c) AS s FROM y GROUP BY b"),
                       A("b.group_key_agg!", 0, "SELECT b AS k, SUM(c) AS s FROM y GROUP BY b"), A("b.group_agg_other_key!", 0, "SELECT MAX(b) AS k, SUM(c) AS s FROM y GROUP BY c")],
            "c3cte": [A("c3.nocte", 0, "")],
            "c3first": [A("c3.table!", 0, "x AS s"), A("c3.derived_where!", 0, "(SELECT a, b FROM x WHERE a = 1) AS s"),
                        A("c3.derived_notnull!", 0, "(SELECT a, b FROM x WHERE b IS NOT NULL) AS s"), A("c3.derived_plain!", 0, "(SELECT a, b FROM x) AS s")],
            "jk2": [A("j2.inner!", 0, "JOIN"), A("j2.left!", 0, "LEFT JOIN"), A("j2.right!", 0, "RIGHT JOIN"), A("j2.full!", 0, "FULL JOIN")],
            "c3on2": [A("on2.other!", 0, "y.c = x2.a"), A("on2.first!", 0, "s.a = x2.a"), A("on2.both!", 0, "y.c = x2.a AND s.a = x2.b")],
            "c3where": [A("c3.nowhere", 0, ""), A("c3.where_first!", 0, " WHERE s.a = 1"), A("c3.where_last_null!", 0, " WHERE x2.b IS NULL"),
                        # filters in disjunctive normal form over two of the three items (a predicate may only move when EVERY block contributes)
                        A("c3.where_dnf_mid_last!", 0, " WHERE (y.c = 1 AND x2.b = 2) OR y.c = 2"), A("c3.where_dnf_first_last!", 0, " WHERE (s.a = 1 AND x2.b = 2) OR s.a = 2"),
                        A("c3.where_dnf_two_blocks!", 0, " WHERE (s.a = 1 AND y.c = 2) OR (s.a = 2 AND y.c = 1)")],
            "sc_s": [A("d", 0, "s.a = 1"), A("s.b_null", 1, "s.a IS NULL"), A("s.gt", 1, "s.a > 1"), A("s.or", 1, "s.a = 1 OR s.a IS NULL"),
                     A("s.in", 1, "s.a IN (1, NULL)"), A("s.not", 1, "NOT s.a = 1"), A("s.neq", 1, "s.a <> 2")],
            "jc_ys": [A("d", 0, "y.c = 1"), A("n_null", 1, "s.n IS NULL"), A("n_gt", 1, "s.n > 1"), A("coalesce", 1, "COALESCE(s.n, 0) = 0")],
            "jc_st": [A("d", 0, "s.a = 1"), A("t_c", 1, "t.c = 1"), A("t_null", 1, "t.c IS NULL"), A("both", 1, "s.a = 1 AND t.c = 1"),
                      A("or", 1, "s.a = 1 OR t.c = 1"), A("s_null", 1, "s.a IS NULL")],
        })
    return Grammar(rules, depth_nts=("se", "seo", "sea", "sc", "sco", "scc", "je", "jeo", "jea", "jc", "jco", "jcc"))


@functools.lru_cache(None)
def queries(k: int, depth: int = 5, engine_extras: bool = False, opt_extras: bool = False, limit_extras: bool = False) -> tuple:
    return exec_grammar(engine_extras, opt_extras, limit_extras).enumerate("q", k, depth)
