"""Where the code under test lives. Always /repo for the registered commands; tools/seed_eval.py may point the
checks at a scratch worktree (VERIF_REPO) so that /repo is not touched while other runs use it."""
import os

REPO = os.environ.get("VERIF_REPO", "/repo").rstrip("/")
SQLGLOT = REPO + "/sqlglot"
