"""E4 - process matrix child: executes a list of call specs in order in ONE fresh interpreter and prints one
digest per call. Run as:  PYTHONHASHSEED=<n> /venv/bin/python -m vlib.procmatrix <spec.json> <out.json>

A call spec is [id, kind, args...]; the digest is sha1(output text) or 'EXC:<type>:<message>'."""
from __future__ import annotations

import hashlib
import json
import logging
import re
import sys


def digest(s: str) -> str:
    return hashlib.sha1(s.encode("utf-8", "replace")).hexdigest()[:16]


def norm_msg(m: str) -> str:
    return re.sub(r"0x[0-9a-fA-F]+", "0x?", m)[:300]


SCHEMA_OPT = {"x": {"a": "INT", "b": "INT"}, "y": {"b": "INT", "c": "INT"}}
SCHEMA_CORE = {"t": {"a": "INT", "b": "INT", "c": "INT"}, "u": {"a": "INT", "b": "INT", "c": "INT"}, "v": {"a": "INT", "b": "INT"}}
SCHEMA_BOOL = {"t": {"p": "BOOLEAN", "q": "BOOLEAN", "r": "BOOLEAN", "x": "INT", "y": "INT"}}


def run_call(spec):
    import sqlglot
    from sqlglot import exp

    kind = spec[1]
    if kind == "preload":
        # load every registered dialect (warm process): returns nothing worth comparing
        from sqlglot.dialects.dialect import Dialect

        for name in spec[2]:
            Dialect.get_or_raise(name)
        return "loaded"
    if kind == "parse_any":
        try:
            sqlglot.parse(spec[2], read=spec[3] or None)
        except Exception as e:
            return "raised " + type(e).__name__
        return "parsed"
    if kind == "kwall":
        return run_kwall(spec[2], spec[3])
    if kind == "poison":
        return run_poison(spec[2], spec[3])
    if kind == "tokenize":
        return repr([(t.token_type.name, t.text, t.start, t.end) for t in sqlglot.tokenize(spec[2], read=spec[3] or None)])
    if kind == "transpile":
        return "\n".join(sqlglot.transpile(spec[2], read=spec[3] or None, write=spec[4] or None))
    if kind == "parse_repr":
        return repr(sqlglot.parse_one(spec[2], read=spec[3] or None))
    if kind == "pretty":
        return sqlglot.parse_one(spec[2], read=spec[3] or None).sql(spec[3] or None, pretty=True, identify=True)
    if kind == "optimize":
        from sqlglot.optimizer import optimize

        return optimize(sqlglot.parse_one(spec[2], read=spec[3] or None), schema=SCHEMA_OPT if spec[4] == "opt" else SCHEMA_CORE, dialect=spec[3] or None).sql(spec[3] or None)
    if kind == "qualify":
        from sqlglot.optimizer.qualify import qualify

        return qualify(sqlglot.parse_one(spec[2], read=spec[3] or None), schema=SCHEMA_OPT if spec[4] == "opt" else SCHEMA_CORE, dialect=spec[3] or None).sql(spec[3] or None)
    if kind == "annotate":
        from sqlglot.optimizer.annotate_types import annotate_types
        from sqlglot.optimizer.qualify import qualify

        t = annotate_types(qualify(sqlglot.parse_one(spec[2], read=spec[3] or None), schema=SCHEMA_CORE, dialect=spec[3] or None), schema=SCHEMA_CORE, dialect=spec[3] or None)
        return repr([(type(n).__name__, n.type.sql() if n.type else None) for n in t.walk()])
    if kind == "simplify":
        from sqlglot.optimizer.simplify import simplify

        return simplify(sqlglot.parse_one(spec[2]), constant_propagation=bool(spec[3]), coalesce_simplification=bool(spec[3])).sql()
    if kind == "simplify_d":
        from sqlglot.optimizer.simplify import simplify

        return simplify(sqlglot.parse_one(spec[2], read=spec[3] or None), dialect=spec[3] or None).sql(spec[3] or None)
    if kind == "simplify_typed":
        from sqlglot.optimizer.annotate_types import annotate_types
        from sqlglot.optimizer.qualify import qualify
        from sqlglot.optimizer.simplify import simplify

        q = annotate_types(qualify(sqlglot.parse_one(f"SELECT {spec[2]} AS c FROM t"), schema=SCHEMA_BOOL), schema=SCHEMA_BOOL)
        return simplify(q).sql()
    if kind == "normalize":
        from sqlglot.optimizer.normalize import normalize

        return normalize(sqlglot.parse_one(spec[2]), dnf=bool(spec[3])).sql()
    if kind == "lineage":
        from sqlglot.lineage import lineage

        node = lineage(spec[3], spec[2], schema=SCHEMA_OPT)
        return repr([(n.name, type(n.expression).__name__, n.source_name, n.reference_node_name) for n in node.walk()])
    if kind == "setorder":
        # order-coverage witness: iteration order of small sets under this interpreter's hash seed
        items = spec[2]
        exprs = [sqlglot.parse_one(s) for s in items]
        return repr((list(set(items)), [e.sql() for e in set(exprs)]))
    if kind == "reuse":
        return run_reuse(spec[2], spec[3], spec[4])
    raise KeyError(kind)


# a word in every syntactic position where a parser / tokenizer / dialect table is consulted: identifier, implicit alias,
# function name, alias, table name, type name, unit after INTERVAL (value and type), unit of EXTRACT / date functions
KW_SHAPES = ["SELECT {w} FROM t", "SELECT {w} x FROM t", "SELECT {w}(1) FROM t", "SELECT x AS {w} FROM t", "SELECT a FROM {w}",
             "SELECT CAST(x AS {w}) FROM t", "SELECT INTERVAL '1' {w}", "SELECT x::INTERVAL {w} FROM t", "SELECT EXTRACT({w} FROM x) FROM t",
             "SELECT DATE_TRUNC('{w}', x), DATEDIFF({w}, a, b) FROM t", "SELECT a FROM t {w}", "SELECT 1 {w} 2"]
EXTRA: dict = {}   # additional digests a call wants to report (id -> digest)


def kw_specs(word, dialects):
    return [[f"k|{word}|{d}|{j}", "transpile", sh.format(w=word.lower()), d, d] for d in dialects for j, sh in enumerate(KW_SHAPES)]


def run_kwall(dialect, words):
    """Every keyword probe of `words` in one dialect; digests are reported under the probe ids."""
    for w in words:
        for spec in kw_specs(w, [dialect]):
            try:
                EXTRA[spec[0]] = digest(run_call(spec))
            except RecursionError:
                EXTRA[spec[0]] = "EXC:RecursionError"
            except Exception as e:
                EXTRA[spec[0]] = f"EXC:{type(e).__name__}:{digest(norm_msg(str(e)))}"
    return f"probed:{len(words)}"


def _table_classes(d):
    from sqlglot.dialects.dialect import Dialect

    D = Dialect.get_or_raise(d or None)
    out = []
    for c in (D.parser_class, D.tokenizer_class, D.generator_class, type(D)):
        for k in c.__mro__:
            if k.__module__.startswith("sqlglot") and k not in out:
                out.append(k)
    return out


def _cheap(c):
    return {a: (id(v), len(v)) for a, v in vars(c).items() if isinstance(v, (dict, set, frozenset, list, tuple))}


def _keys(v):
    return set(x for x in v if isinstance(x, str)), sum(1 for x in v if not isinstance(x, str))


def run_poison(shard, nshards):
    """A process history made of FAILING inputs: every token prefix and every single-token deletion of the dialect-test
    statements of this shard, parsed in the statement's own dialect (default error level, so most of them raise in the middle
    of a parser method), plus the statement itself generated into three targets with unsupported_level=RAISE.
    After EVERY input the class-level tables (own dict / set / list attributes of the dialect's parser, tokenizer, generator and
    dialect classes and their sqlglot bases) are compared with what they were before it (identity and size). When one changed,
    the words that entered or left it are probed at once - in that state - in identifier position (kw_specs) and the digests are
    reported under '<probe id>@<n>'; the caller compares them with a cold process. A transient leak that a later successful call
    happens to undo is therefore still seen. The table comparison only chooses WHEN to probe; what is judged is behaviour."""
    import sqlglot
    from sqlglot.errors import ErrorLevel
    from vlib import corpus

    n = 0
    leads = []
    snaps: dict = {}
    detail: dict = {}

    def check(d, text):
        for c in _table_classes(d):
            now = _cheap(c)
            old = snaps.get(c)
            if old is None:
                snaps[c] = now
                detail[c] = {a: _keys(v) for a, v in vars(c).items() if isinstance(v, (dict, set, frozenset, list, tuple))}
                continue
            if now != old:
                for a in set(now) | set(old):
                    if now.get(a) != old.get(a):
                        ks, other = _keys(getattr(c, a, ()))
                        ks0, other0 = detail[c].get(a, (set(), 0))
                        words = sorted(w for w in ks ^ ks0 if w.replace("_", "").isalnum())
                        leads.append([c.__name__, a, words[:8], other != other0, d, text[:200]])
                        for w in words[:8]:
                            for spec in kw_specs(w, sorted({"", d})):
                                key = f"{spec[0]}@{shard}:{n}"
                                try:
                                    EXTRA[key] = [digest(run_call(spec)), text, d]
                                except RecursionError:
                                    EXTRA[key] = ["EXC:RecursionError", text, d]
                                except Exception as e:
                                    EXTRA[key] = [f"EXC:{type(e).__name__}:{digest(norm_msg(str(e)))}", text, d]
                        detail[c][a] = (ks, other)
                snaps[c] = _cheap(c)

    for i, (d, sql) in enumerate(corpus.dialect_test_sql()):
        if i % nshards != shard:
            continue
        try:
            toks = sqlglot.tokenize(sql, read=d or None)
        except Exception:
            continue
        check(d, "")
        texts = [sql[: t.end + 1] for t in toks[:-1]] + [sql[: t.start] + sql[t.end + 1:] for t in toks]
        for text in texts:
            n += 1
            try:
                sqlglot.parse(text, read=d or None)
            except Exception:
                pass
            check(d, text)
        for w in ("", "tsql", "bigquery"):
            try:
                sqlglot.transpile(sql, read=d or None, write=w or None, unsupported_level=ErrorLevel.RAISE)
            except Exception:
                pass
        check(d, sql)
    EXTRA[f"leads@{shard}"] = leads
    return f"poisoned:{n}"


def run_reuse(component, dialect, history):
    """The last answer of a reused component must equal a fresh instance's answer. Returns 'same' or a description."""
    import sqlglot
    from sqlglot.dialects.dialect import Dialect
    from sqlglot.errors import ErrorLevel
    from sqlglot.schema import MappingSchema

    D = Dialect.get_or_raise(dialect or None)

    def answer(obj, inp):
        try:
            if component == "tokenizer":
                return repr([(t.token_type.name, t.text, t.line, t.col, t.start, t.end) for t in obj.tokenize(inp)])
            if component == "parser":
                return repr(obj.parse(D.tokenize(inp), inp))
            if component == "generator":
                return obj.generate(sqlglot.parse_one(inp, read=dialect or None))
            if component == "dialect":
                return obj.generate(obj.parse_one(inp)) if hasattr(obj, "parse_one") else obj.generate(obj.parse(inp)[0])
            if component == "schema":
                kind, arg = inp
                if kind == "add":
                    obj.add_table(arg[0], arg[1])
                    return "added"
                if kind == "names":
                    return repr(obj.column_names(arg))
                if kind == "type":
                    return obj.get_column_type(arg[0], arg[1]).sql()
        except Exception as e:
            return f"EXC:{type(e).__name__}:{norm_msg(str(e))}"

    def fresh():
        if component == "tokenizer":
            return D.tokenizer()
        if component == "parser":
            return D.parser(error_level=ErrorLevel.RAISE)
        if component == "generator":
            return D.generator(identify="safe", unsupported_level=ErrorLevel.RAISE)
        if component == "dialect":
            return Dialect.get_or_raise(dialect or None)
        if component == "schema":
            return MappingSchema({"t": {"a": "INT"}}, dialect=dialect or None)

    obj = fresh()
    last = None
    for inp in history:
        last = answer(obj, inp)
    ref = fresh()
    if component == "schema":
        for inp in history[:-1]:
            if inp[0] == "add":
                answer(ref, inp)
    want = answer(ref, history[-1])
    return "same" if last == want else f"DIFF reused={last!r:.200} fresh={want!r:.200}"


def main():
    logging.disable(logging.CRITICAL)
    specs = json.load(open(sys.argv[1]))
    out = {}
    for spec in specs:
        try:
            out[spec[0]] = digest(run_call(spec)) if spec[1] not in ("setorder", "reuse") else run_call(spec)
        except RecursionError:
            out[spec[0]] = "EXC:RecursionError"
        except Exception as e:
            out[spec[0]] = f"EXC:{type(e).__name__}:{digest(norm_msg(str(e)))}"
    out.update(EXTRA)
    json.dump(out, open(sys.argv[2], "w"))


if __name__ == "__main__":
    main()
