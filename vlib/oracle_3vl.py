"""O1 - a deliberately boring three-valued evaluator over sqlglot expression trees.

Values: None (SQL NULL), True, False, int, str. Anything outside the modelled node classes raises
Unsupported and the case is then not compared (and counted as such)."""
from __future__ import annotations

import itertools
import typing as t

from sqlglot import exp


class Unsupported(Exception):
    pass


def and3(a, b):
    if a is False or b is False:
        return False
    if a is None or b is None:
        return None
    return True


def or3(a, b):
    if a is True or b is True:
        return True
    if a is None or b is None:
        return None
    return False


def not3(a):
    return None if a is None else (not a)


def _cmp(op, a, b):
    if a is None or b is None:
        return None
    if isinstance(a, bool) != isinstance(b, bool):
        # boolean vs number comparison: engines coerce TRUE->1; keep it defined the same way
        a, b = int(a), int(b)
    if isinstance(a, str) != isinstance(b, str):
        raise Unsupported("mixed text/number comparison")
    return {"eq": a == b, "neq": a != b, "lt": a < b, "lte": a <= b, "gt": a > b, "gte": a >= b}[op]


CMP = {exp.EQ: "eq", exp.NEQ: "neq", exp.LT: "lt", exp.LTE: "lte", exp.GT: "gt", exp.GTE: "gte"}
INT_TYPES = {"INT", "BIGINT", "SMALLINT", "TINYINT", "INTEGER"}


def ev(e: t.Any, env: dict[str, t.Any]):
    ty = type(e)
    if ty is exp.Column:
        if e.args.get("table"):
            name = f"{e.table}.{e.name}"
            if name in env:
                return env[name]
        if e.name not in env:
            raise Unsupported(f"unbound column {e.name}")
        return env[e.name]
    if ty is exp.Literal:
        if e.is_string:
            return e.this
        try:
            return int(e.this)
        except ValueError:
            raise Unsupported("non-integer literal")
    if ty is exp.Boolean:
        return bool(e.this)
    if ty is exp.Null:
        return None
    if ty is exp.Paren:
        return ev(e.this, env)
    if ty is exp.And:
        return and3(tobool(ev(e.this, env)), tobool(ev(e.expression, env)))
    if ty is exp.Or:
        return or3(tobool(ev(e.this, env)), tobool(ev(e.expression, env)))
    if ty is exp.Not:
        return not3(tobool(ev(e.this, env)))
    if ty in CMP:
        return _cmp(CMP[ty], ev(e.this, env), ev(e.expression, env))
    if ty is exp.NullSafeEQ:
        a, b = ev(e.this, env), ev(e.expression, env)
        return (a is None and b is None) or (a is not None and b is not None and _cmp("eq", a, b))
    if ty is exp.NullSafeNEQ:
        a, b = ev(e.this, env), ev(e.expression, env)
        return not ((a is None and b is None) or (a is not None and b is not None and _cmp("eq", a, b)))
    if ty is exp.Between:
        v, lo, hi = ev(e.this, env), ev(e.args["low"], env), ev(e.args["high"], env)
        if e.args.get("symmetric"):
            raise Unsupported("symmetric between")
        return and3(_cmp("gte", v, lo), _cmp("lte", v, hi))
    if ty is exp.Is:
        v = ev(e.this, env)
        rhs = e.expression
        if isinstance(rhs, exp.Null):
            return v is None
        if isinstance(rhs, exp.Boolean):
            return v is not None and tobool(v) is bool(rhs.this)
        raise Unsupported("IS <expr>")
    if ty is exp.In:
        if e.args.get("query") or e.args.get("unnest") or e.args.get("field"):
            raise Unsupported("IN subquery")
        v = ev(e.this, env)
        res: t.Any = False
        for x in e.expressions:
            res = or3(res, _cmp("eq", v, ev(x, env)))
        return res
    if ty is exp.Coalesce:
        for x in [e.this] + list(e.expressions):
            v = ev(x, env)
            if v is not None:
                return v
        return None
    if ty is exp.Case:
        subject = e.args.get("this")
        for if_ in e.args.get("ifs") or []:
            cond = if_.this
            if subject is not None:
                c = _cmp("eq", ev(subject, env), ev(cond, env))
            else:
                c = tobool(ev(cond, env))
            if c is True:
                return ev(if_.args["true"], env)
        d = e.args.get("default")
        return ev(d, env) if d is not None else None
    if ty is exp.If:
        c = tobool(ev(e.this, env))
        if c is True:
            return ev(e.args["true"], env)
        f = e.args.get("false")
        return ev(f, env) if f is not None else None
    if ty in (exp.Add, exp.Sub, exp.Mul):
        a, b = ev(e.this, env), ev(e.expression, env)
        if a is None or b is None:
            return None
        if isinstance(a, (bool, str)) or isinstance(b, (bool, str)):
            raise Unsupported("arithmetic on non-integers")
        return a + b if ty is exp.Add else a - b if ty is exp.Sub else a * b
    if ty is exp.Neg:
        a = ev(e.this, env)
        if a is None:
            return None
        if isinstance(a, (bool, str)):
            raise Unsupported("neg on non-integer")
        return -a
    if ty in (exp.Cast, exp.TryCast):
        to = e.args["to"]
        v = ev(e.this, env)
        name = to.this.name if hasattr(to.this, "name") else str(to.this)
        if name in INT_TYPES and not to.expressions:
            if v is None or (isinstance(v, int) and not isinstance(v, bool)):
                return v
        if name == "BOOLEAN" and (v is None or isinstance(v, bool)):
            return v
        raise Unsupported(f"cast to {name}")
    if ty is exp.Nullif:
        a, b = ev(e.this, env), ev(e.expression, env)
        return None if _cmp("eq", a, b) is True else a
    raise Unsupported(ty.__name__)


def tobool(v):
    if v is None or isinstance(v, bool):
        return v
    raise Unsupported("non-boolean used as truth value")


def columns_of(e: exp.Expr) -> list[str]:
    return sorted({c.name for c in e.find_all(exp.Column)})


BOOL_DOMAIN = (None, True, False)
INT_DOMAIN = (None, -1, 0, 1, 2, 3, 4)


def assignments(cols: t.Sequence[str], kinds: dict[str, str], nonnull: t.Collection[str] = ()):
    doms = []
    for c in cols:
        dom = BOOL_DOMAIN if kinds.get(c, "int") == "bool" else INT_DOMAIN
        if c in nonnull:
            dom = tuple(v for v in dom if v is not None)
        doms.append(dom)
    for combo in itertools.product(*doms):
        yield dict(zip(cols, combo))


def truth_table(e: exp.Expr, cols, kinds, nonnull=()):
    """Tuple of results under every assignment (Unsupported propagates)."""
    return tuple(ev(e, env) for env in assignments(cols, kinds, nonnull))
