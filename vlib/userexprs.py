"""Expression classes defined OUTSIDE sqlglot (what a dialect plug-in or an application does), some of them named like a
core class: serialisation, pickling and copying must give back exactly these classes (C12)."""
from sqlglot import exp


class Trim(exp.Trim):
    pass


class Coalesce(exp.Coalesce):
    pass


class Column(exp.Column):
    pass


class MyFunc(exp.Expression, exp.Func):
    arg_types = {"this": True, "expressions": False}
    is_var_len_args = True
