"""Fixed corpora taken from the repository's own fixtures (used as initial states, never as oracles)."""
from __future__ import annotations

import functools
import os

from vlib.paths import REPO
FIX = os.path.join(REPO, "tests", "fixtures")


def _filter_comments(s):
    return "\n".join(line for line in s.splitlines() if line and not line.startswith("--"))


@functools.lru_cache(None)
def identity_sql() -> list[str]:
    with open(os.path.join(FIX, "identity.sql"), encoding="utf-8") as f:
        return _filter_comments(f.read()).splitlines()


@functools.lru_cache(None)
def pretty_sql() -> list[str]:
    with open(os.path.join(FIX, "pretty.sql"), encoding="utf-8") as f:
        return [s.strip() for s in _filter_comments(f.read()).split(";") if s.strip()]


def all_dialects() -> list[str]:
    from sqlglot.dialects import DIALECTS

    return [d.lower() for d in DIALECTS]


OPT_SCHEMA = {
    "x": {"a": "INT", "b": "INT"},
    "y": {"b": "INT", "c": "INT"},
    "z": {"b": "INT", "c": "INT"},
    "w": {"d": "TEXT", "e": "TEXT"},
    "temporal": {"d": "DATE", "t": "DATETIME"},
    "structs": {"one": "STRUCT<a_1 INT, b_1 VARCHAR>", "nested_0": "STRUCT<nested_1 STRUCT<a_2 INT>>",
                "quoted": 'STRUCT<"foo bar" INT>'},
    "t_bool": {"a": "BOOLEAN"},
}


def _pairs(filename):
    with open(os.path.join(FIX, "optimizer", filename), encoding="utf-8") as f:
        statements = _filter_comments(f.read()).split(";")
    for i in range(0, len(statements), 2):
        if i + 1 < len(statements):
            sql = statements[i].strip()
            meta = {}
            lines = sql.split("\n")
            j = 0
            while j < len(lines) and lines[j].startswith("#"):
                key, _, val = lines[j].partition(":")
                meta[key.lstrip("#").strip()] = val.strip()
                j += 1
            yield meta, "\n".join(lines[j:]), statements[i + 1].strip()


@functools.lru_cache(None)
def optimizer_cases() -> list[tuple[str, str | None, dict]]:
    """(sql, dialect, schema) for every input statement of the optimizer fixture files."""
    out = []
    files = ["optimizer.sql", "qualify_columns.sql", "merge_subqueries.sql", "pushdown_predicates.sql",
             "pushdown_projections.sql", "unnest_subqueries.sql", "eliminate_subqueries.sql", "eliminate_joins.sql",
             "eliminate_ctes.sql", "optimize_joins.sql", "canonicalize.sql", "qualify_tables.sql"]
    seen = set()
    for fn in files:
        for meta, sql, _ in _pairs(fn):
            d = meta.get("dialect") or None
            if (sql, d) in seen or not sql:
                continue
            seen.add((sql, d))
            out.append((sql, d, OPT_SCHEMA))
    return out


@functools.lru_cache(None)
def fixture_inputs(filename: str) -> list[tuple[str, str | None]]:
    return [(sql, meta.get("dialect") or None) for meta, sql, _ in _pairs(filename) if sql]


@functools.lru_cache(None)
def dialect_test_sql() -> list[tuple[str, str]]:
    """(dialect, sql) for every string literal passed first to validate_identity / validate_all in
    tests/dialects/test_<dialect>.py: the repository's own dialect-specific statements (COPY, CREATE ... WITH
    options, hints, procedural bodies...), used as seed states for mutation, never as expected values."""
    import ast
    import glob

    from sqlglot.dialects import DIALECTS

    known = {d.lower() for d in DIALECTS}
    out, seen = [], set()
    for path in sorted(glob.glob(os.path.join(REPO, "tests", "dialects", "test_*.py"))):
        d = os.path.basename(path)[5:-3]
        if d not in known:
            d = ""
        try:
            tree = ast.parse(open(path, encoding="utf-8").read())
        except SyntaxError:
            continue
        for n in ast.walk(tree):
            if (isinstance(n, ast.Call) and isinstance(n.func, ast.Attribute) and n.func.attr in ("validate_identity", "validate_all")
                    and n.args and isinstance(n.args[0], ast.Constant) and isinstance(n.args[0].value, str)):
                s = n.args[0].value.strip()
                if s and (d, s) not in seen and len(s) <= 400:
                    seen.add((d, s))
                    out.append((d, s))
    return out
