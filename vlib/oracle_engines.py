"""O2 - SQLite / DuckDB runners and row comparison."""
from __future__ import annotations

import datetime
import decimal
import itertools
import sqlite3
import typing as t
from collections import Counter

import sqlglot
from sqlglot import exp


class EngineError(Exception):
    pass


SQLTYPE = {"INT": "INT", "TEXT": "TEXT", "TIMESTAMP": "TIMESTAMP", "BOOLEAN": "BOOLEAN", "DOUBLE": "DOUBLE"}


def lit(v) -> str:
    if v is None:
        return "NULL"
    if isinstance(v, bool):
        return "TRUE" if v else "FALSE"
    if isinstance(v, (int, float)):
        return str(v)
    return "'" + str(v).replace("'", "''") + "'"


class Sqlite:
    name = "sqlite"

    def __init__(self, schema: dict[str, dict[str, str]], data: dict[str, list[tuple]]):
        self.con = sqlite3.connect(":memory:")
        for tname, cols in schema.items():
            self.con.execute(f"CREATE TABLE {tname} ({', '.join(f'{c} {SQLTYPE[ty]}' for c, ty in cols.items())})")
            rows = data.get(tname) or []
            if rows:
                self.con.executemany(f"INSERT INTO {tname} VALUES ({', '.join('?' * len(cols))})", rows)

    def run(self, sql: str):
        try:
            cur = self.con.execute(sql)
            rows = cur.fetchall()
            names = [d[0] for d in cur.description] if cur.description else []
            return names, rows
        except (sqlite3.Error, sqlite3.Warning, OverflowError) as e:
            raise EngineError(f"sqlite: {e}") from e

    def close(self):
        self.con.close()


class Duck:
    name = "duckdb"

    def __init__(self, schema: dict[str, dict[str, str]], data: dict[str, list[tuple]]):
        import duckdb

        self.con = duckdb.connect(":memory:")
        for tname, cols in schema.items():
            self.con.execute(f"CREATE TABLE {tname} ({', '.join(f'{c} {SQLTYPE[ty]}' for c, ty in cols.items())})")
            rows = data.get(tname) or []
            if rows:
                vals = ", ".join("(" + ", ".join(lit(v) for v in r) + ")" for r in rows)
                self.con.execute(f"INSERT INTO {tname} VALUES {vals}")

    def reset(self, schema, data):
        for tname, cols in schema.items():
            self.con.execute(f"DELETE FROM {tname}")
            rows = data.get(tname) or []
            if rows:
                vals = ", ".join("(" + ", ".join(lit(v) for v in r) + ")" for r in rows)
                self.con.execute(f"INSERT INTO {tname} VALUES {vals}")

    def run(self, sql: str):
        import duckdb

        try:
            cur = self.con.execute(sql)
            rows = cur.fetchall()
            names = [d[0] for d in cur.description] if cur.description else []
            return names, rows
        except (duckdb.Error, OverflowError, RuntimeError) as e:
            raise EngineError(f"duckdb: {str(e)[:200]}") from e

    def close(self):
        self.con.close()


def norm_cell(v):
    if v is None:
        return None
    if isinstance(v, bool):
        return int(v)
    if isinstance(v, int):
        return v
    if isinstance(v, (float, decimal.Decimal)):
        f = float(v)
        if f != f:
            return "nan"
        if f in (float("inf"), float("-inf")):
            return "inf" if f > 0 else "-inf"
        r = round(f, 9)
        return int(r) if r == int(r) and abs(r) < 1e15 else r
    if isinstance(v, (datetime.datetime, datetime.date, datetime.time)):
        s = str(v)
        return s[:-9] if s.endswith(" 00:00:00") and False else s
    if isinstance(v, (bytes, bytearray)):
        return bytes(v).decode("latin1")
    return v


def norm_rows(rows) -> list[tuple]:
    return [tuple(norm_cell(c) for c in r) for r in rows]


def same_multiset(a, b) -> bool:
    return Counter(norm_rows(a)) == Counter(norm_rows(b))


def order_positions(tree: exp.Expr) -> list[int] | None:
    """Output positions (0-based) of the outermost ORDER BY keys when every key is an ordinal or the name of
    an output column; [] when there is no ORDER BY; None when the keys cannot be related to output columns."""
    q = tree
    while isinstance(q, exp.Subquery):
        q = q.this
    order = q.args.get("order") if isinstance(q, exp.Query) else None
    if not order:
        return []
    try:
        names = [s.alias_or_name for s in q.selects]
    except Exception:
        return None
    out = []
    for o in order.expressions:
        k = o.this
        if isinstance(k, exp.Literal) and k.is_int:
            out.append(int(k.this) - 1)
        elif isinstance(k, exp.Column) and not k.table and k.name in names and names.count(k.name) == 1:
            out.append(names.index(k.name))
        else:
            return None
    return out


def order_is_total(tree: exp.Expr) -> bool:
    """True when the outermost ORDER BY names (by ordinal or output name) EVERY output column among its keys:
    the order is then total up to identical rows, whatever other expression keys precede them."""
    q = tree
    while isinstance(q, exp.Subquery):
        q = q.this
    order = q.args.get("order") if isinstance(q, exp.Query) else None
    if not order:
        return False
    try:
        names = [s.alias_or_name for s in q.selects]
    except Exception:
        return False
    covered = set()
    for o in order.expressions:
        k = o.this
        if isinstance(k, exp.Literal) and k.is_int:
            covered.add(int(k.this) - 1)
        elif isinstance(k, exp.Column) and not k.table and k.name in names and names.count(k.name) == 1:
            covered.add(names.index(k.name))
    return covered >= set(range(len(names))) and len(names) > 0


def has_limit(tree: exp.Expr) -> bool:
    return any(n.args.get("limit") or n.args.get("offset") for n in tree.find_all(exp.Query))


def compare_results(ref_rows, got_rows, order_pos, total: bool = False) -> str | None:
    """None if equivalent; otherwise a short reason. order_pos: see order_positions; total: see order_is_total."""
    a, b = norm_rows(ref_rows), norm_rows(got_rows)
    if total and a != b and Counter(a) == Counter(b):
        return "same rows, different sequence under a total ORDER BY"
    if Counter(a) != Counter(b):
        return "different rows"
    if order_pos:
        ka = [tuple(r[i] for i in order_pos if i < len(r)) for r in a]
        kb = [tuple(r[i] for i in order_pos if i < len(r)) for r in b]
        if ka != kb:
            return "same rows, different order of the ORDER BY keys"
    return None


def instances(schema: dict[str, dict[str, str]], tables: t.Sequence[str], domain: dict[str, tuple], max_rows: int):
    """Every database over `tables` with <= max_rows rows per table, cell values from domain[type]."""
    per_table = []
    for tname in tables:
        cols = schema[tname]
        all_rows = list(itertools.product(*[domain[ty] for ty in cols.values()]))
        choices = []
        for n in range(0, max_rows + 1):
            choices.extend(itertools.combinations_with_replacement(all_rows, n))
        per_table.append(choices)
    for combo in itertools.product(*per_table):
        yield {tname: list(rows) for tname, rows in zip(tables, combo)}


def tables_of(tree: exp.Expr, schema) -> list[str]:
    names = {t.name for t in tree.find_all(exp.Table)}
    return [n for n in schema if n in names]
