"""Shared runner: tiers, fork pool, evidence writer, VIOLATION / KNOWN-FINDING printing, replay dispatch.

A check module `checks/cNN.py` provides
    run(ctx)              -> None     (calls ctx.violation(...) and finally ctx.evidence(...))
    replay(ctx, case)     -> bool     (True if the recorded violation still reproduces)
"""
from __future__ import annotations

import argparse
import hashlib
import importlib
import json
import os
import pickle
import random
import sys
import tempfile
import time
import traceback
import typing as t

ROOT = os.path.dirname(os.path.dirname(os.path.abspath(__file__)))
LEVELS = ("exploration", "fault_enumeration", "model_checking", "proof", "translation_validation", "other")


class HarnessError(Exception):
    """The harness itself is broken (seam missing, replay diverged, oracle self-check failed)."""


def _merge(a: t.Any, b: t.Any) -> t.Any:
    if a is None:
        return b
    if b is None:
        return a
    if isinstance(a, bool) and isinstance(b, bool):
        return a or b
    if isinstance(a, (int, float)) and isinstance(b, (int, float)):
        return a + b
    if isinstance(a, list) and isinstance(b, list):
        return a + b
    if isinstance(a, (set, frozenset)) and isinstance(b, (set, frozenset)):
        return set(a) | set(b)
    if isinstance(a, dict) and isinstance(b, dict):
        out = dict(a)
        for k, v in b.items():
            out[k] = _merge(out.get(k), v) if k in out else v
        return out
    raise HarnessError(f"cannot merge {type(a)} with {type(b)}")


class Ctx:
    def __init__(self, pid: str, tier: str, seed: int, jobs: int):
        self.pid = pid
        self.tier = tier
        self.quick = tier == "quick"
        self.seed = seed
        self.jobs = jobs
        self.t0 = time.time()
        self._violations: dict[str, dict] = {}
        self._vcount: dict[str, int] = {}
        self._evidence: dict | None = None
        self.findings = load_findings(pid)
        self.notes: list[str] = []

    # ------------------------------------------------------------------ violations
    def violation(self, signature: str, what: str, case: dict, count: int = 1) -> None:
        """Record a violation. `signature` is the narrow identity used for known-finding matching;
        only the first (enumeration order = smallest first) case per signature is kept for replay."""
        self._vcount[signature] = self._vcount.get(signature, 0) + count
        if signature not in self._violations:
            self._violations[signature] = {"signature": signature, "what": what, "case": case}

    def absorb(self, result: dict) -> None:
        for v in result.get("violations", ()):
            if not isinstance(v, dict) or "signature" not in v:
                return  # check-specific violation records, aggregated by the check itself
            self.violation(v["signature"], v["what"], v["case"], v.get("count", 1))

    # ------------------------------------------------------------------ parallel
    def run_shards(self, worker: t.Callable[..., dict], nshards: int | None = None, *args: t.Any) -> dict:
        """Run worker(shard, nshards, *args) in forked children for every shard and merge the dict
        results (ints summed, lists concatenated in shard order, sets united, dicts merged).
        Shard -> process assignment order is permuted by the seed; results never depend on it."""
        n = nshards or self.jobs
        order = list(range(n))
        random.Random(self.seed).shuffle(order)
        tmpdir = tempfile.mkdtemp(prefix=f"verif_{self.pid}_")
        results: dict[int, t.Any] = {}
        running: dict[int, int] = {}
        pending = list(order)
        try:
            while pending or running:
                while pending and len(running) < self.jobs:
                    shard = pending.pop(0)
                    sys.stdout.flush()
                    sys.stderr.flush()
                    pid = os.fork()
                    if pid == 0:
                        code = 0
                        try:
                            try:
                                res = ("ok", worker(shard, n, *args))
                            except BaseException:
                                res = ("exc", traceback.format_exc())
                            with open(os.path.join(tmpdir, f"{shard}.pkl"), "wb") as f:
                                pickle.dump(res, f, protocol=pickle.HIGHEST_PROTOCOL)
                        except BaseException:
                            traceback.print_exc()
                            code = 3
                        finally:
                            sys.stdout.flush()
                            sys.stderr.flush()
                            os._exit(code)
                    running[pid] = shard
                pid, status = os.wait()
                shard = running.pop(pid)
                path = os.path.join(tmpdir, f"{shard}.pkl")
                if status != 0 or not os.path.exists(path):
                    raise HarnessError(f"worker for shard {shard} died with status {status}")
                with open(path, "rb") as f:
                    kind, payload = pickle.load(f)
                os.unlink(path)
                if kind != "ok":
                    raise HarnessError(f"worker for shard {shard} raised:\n{payload}")
                results[shard] = payload
        finally:
            for pid in running:
                try:
                    os.kill(pid, 9)
                except OSError:
                    pass
            for name in os.listdir(tmpdir):
                os.unlink(os.path.join(tmpdir, name))
            os.rmdir(tmpdir)
        merged: t.Any = None
        for shard in range(n):
            merged = _merge(merged, results[shard])
        merged = merged or {}
        self.absorb(merged)
        return merged

    # ------------------------------------------------------------------ evidence
    def evidence(self, level: str, coverage: dict, assumptions: list[str] | None = None) -> None:
        assert level in LEVELS
        self._evidence = {"level": level, "coverage": coverage, "assumptions": assumptions or []}

    def finish(self) -> int:
        if self._evidence is None:
            raise HarnessError("check did not produce evidence")
        known_hit: dict[str, int] = {}
        new: list[dict] = []
        for sig, v in self._violations.items():
            entry = self.findings.get(sig)
            if entry is not None and entry.get("status") == "known":
                known_hit[sig] = self._vcount[sig]
                print(f"KNOWN-FINDING: property={self.pid} {entry.get('what') or v['what']}")
            else:
                new.append(v)
        # a run against a scratch worktree (VERIF_REPO) or a deliberately patched /repo (VERIF_SCRATCH, set by tools/seed_eval.py) must never overwrite the
        # evidence / replays of the real tree
        scratch = "_scratch" if (os.environ.get("VERIF_REPO") or os.environ.get("VERIF_SCRATCH")) else ""
        rdir = os.path.join(ROOT, "replays" + scratch, self.pid)
        os.makedirs(rdir, exist_ok=True)
        for old in os.listdir(rdir):  # replays always describe the latest run only
            if old.endswith(".json"):
                os.unlink(os.path.join(rdir, old))
        for v in new:
            key = hashlib.sha1(v["signature"].encode()).hexdigest()[:12]
            path = os.path.join(rdir, f"{key}.json")
            with open(path, "w") as f:
                json.dump(
                    {"property": self.pid, "signature": v["signature"], "what": v["what"],
                     "occurrences": self._vcount[v["signature"]], "case": v["case"]},
                    f, indent=1, default=str, sort_keys=True,
                )
            print(f"VIOLATION property={self.pid} replay={path}")
            print(f"  signature: {v['signature']}")
            print(f"  what: {v['what']}")
        ev = self._evidence
        cov = dict(ev["coverage"])
        cov.setdefault("known_findings_hit", known_hit)
        if self.notes:
            cov.setdefault("notes", self.notes)
        out = {
            "property_id": self.pid,
            "tier": self.tier,
            "seed": self.seed,
            "level": ev["level"],
            "coverage": cov,
            "assumptions": ev["assumptions"],
            "wall_s": round(time.time() - self.t0, 2),
            "violations": len(new),
        }
        os.makedirs(os.path.join(ROOT, "evidence" + scratch), exist_ok=True)
        with open(os.path.join(ROOT, "evidence" + scratch, f"{self.pid}.json"), "w") as f:
            json.dump(out, f, indent=1, default=str)
        summary = {k: v for k, v in cov.items() if isinstance(v, (int, float, bool))}
        print(f"{self.pid} tier={self.tier} seed={self.seed} wall={out['wall_s']}s violations={len(new)} "
              f"known={len(known_hit)} {summary}")
        return 1 if new else 0


def load_findings(pid: str) -> dict[str, dict]:
    path = os.path.join(ROOT, "known_findings.json")
    if not os.path.exists(path):
        return {}
    with open(path) as f:
        entries = json.load(f)
    return {e["signature"]: e for e in entries if e.get("property") == pid}


def sample_every(items: t.Sequence, n: int = 8) -> list:
    """n items spread evenly over a sequence (for evidence samples; deterministic)."""
    if len(items) <= n:
        return list(items)
    step = len(items) / n
    return [items[int(i * step)] for i in range(n)]


def main(argv: list[str]) -> int:
    ap = argparse.ArgumentParser(prog="check")
    ap.add_argument("property")
    ap.add_argument("--tier", default=os.environ.get("VERIF_TIER", "quick"), choices=["quick", "thorough"])
    ap.add_argument("--replay")
    ap.add_argument("--jobs", type=int, default=int(os.environ.get("VERIF_JOBS", "0")) or (os.cpu_count() or 4))
    args = ap.parse_args(argv)
    pid = args.property.upper()
    try:
        seed = int(os.environ.get("VERIF_SEED", "0") or 0)
    except ValueError:
        seed = 0
    os.environ["SQLGLOT_VERIF"] = "1"
    try:
        mod = importlib.import_module(f"checks.{pid.lower()}")
    except ModuleNotFoundError as e:
        print(f"harness error: no check module for {pid}: {e}", file=sys.stderr)
        return 2
    ctx = Ctx(pid, args.tier, seed, args.jobs)
    try:
        if args.replay:
            with open(args.replay) as f:
                rec = json.load(f)
            reproduced = mod.replay(ctx, rec["case"])
            if reproduced:
                print(f"VIOLATION property={pid} replay={args.replay}")
                return 1
            print(f"replay of {args.replay}: property holds (violation not reproduced)")
            return 0
        mod.run(ctx)
        return ctx.finish()
    except HarnessError as e:
        print(f"harness error in {pid}: {e}", file=sys.stderr)
        return 2
    except Exception:
        traceback.print_exc()
        print(f"harness error in {pid}: unexpected exception", file=sys.stderr)
        return 2
