"""Operation alphabet over real expression trees (shared by C08 / C09).

A workspace is [main, other]; an operation is a plain tuple so that histories can be written to replay
files. Paths are tuples of (arg_key, index|None) steps from the root of `main`.
"""
from __future__ import annotations

import typing as t

from sqlglot import exp
from sqlglot.expressions.core import Expr

from vlib import fingerprint as fpm


class NotEnabled(Exception):
    pass


def node_at(root: Expr, path) -> Expr:
    n = root
    for k, i in path:
        v = n.args.get(k)
        if i is None:
            if not isinstance(v, Expr):
                raise NotEnabled(path)
            n = v
        else:
            if type(v) is not list or i >= len(v) or not isinstance(v[i], Expr):
                raise NotEnabled(path)
            n = v[i]
    return n


def paths(root: Expr):
    out = []
    stack = [(root, ())]
    while stack:
        n, p = stack.pop()
        out.append((p, n))
        for k, i, c in fpm.children(n):
            stack.append((c, p + ((k, i),)))
    out.sort(key=lambda x: (len(x[0]), repr(x[0])))
    return out


def fresh(kind: str) -> t.Any:
    if kind == "col":
        return exp.column("z")
    if kind == "lit":
        return exp.Literal.number(9)
    if kind == "tree":
        return exp.Add(this=exp.column("p"), expression=exp.Literal.number(1))
    if kind == "hashed":
        n = exp.Add(this=exp.column("q"), expression=exp.Literal.number(2))
        hash(n)
        return n
    if kind == "list2":
        return [exp.column("z1"), exp.column("z2")]
    raise KeyError(kind)


FRESH_QUICK = ("col", "hashed")
FRESH_FULL = ("col", "lit", "tree", "hashed")

# ---------------------------------------------------------------- transform functions


def tf_identity(n):
    return n


def tf_rename(n):
    if isinstance(n, exp.Column) and n.name in ("a", "b"):
        return exp.column(n.name + "_r")
    return n


def tf_swap_literal(n):
    if isinstance(n, exp.Literal):
        return exp.Literal.number(7)
    return n


def tf_lift(n):
    if isinstance(n, (exp.Paren, exp.Not, exp.Neg)) and isinstance(n.this, Expr):
        return n.this
    return n


def tf_drop(n):
    if isinstance(n, exp.Column) and n.name == "b" and n.index is not None:
        return None
    return n


def tf_wrap(n):
    if isinstance(n, exp.Column) and n.name == "a":
        return exp.Paren(this=n)
    return n


TRANSFORMS = {"identity": tf_identity, "rename": tf_rename, "swap_literal": tf_swap_literal,
              "lift": tf_lift, "drop": tf_drop, "wrap": tf_wrap}

BUILDERS = ("select", "where", "join", "order_by", "limit", "group_by", "having", "distinct", "from_", "with_")
COND_BUILDERS = ("and_", "or_", "not_")


def enabled_ops(ws, quick: bool, rules: t.Sequence[str] = ()) -> list[tuple]:
    main, other = ws
    fresh_kinds = FRESH_QUICK if quick else FRESH_FULL
    ops: list[tuple] = []
    allp = paths(main)
    for p, n in allp:
        ops.append(("hash", p))
    if other is not None:
        ops.append(("eq",))
        ops.append(("swap",))
    ops.append(("copy",))
    for p, n in allp:
        keys = list(n.args)
        missing = [k for k in n.arg_types if k not in n.args][:1]
        for k in keys + missing:
            v = n.args.get(k)
            if type(v) is list:
                for i in range(len(v)):
                    if not isinstance(v[i], Expr):
                        continue
                    for fk in fresh_kinds[:1]:
                        ops.append(("seti", p, k, i, fk))
                        ops.append(("insi", p, k, i, fk))
                    ops.append(("seti", p, k, i, "list2"))
                    ops.append(("deli", p, k, i))
                ops.append(("append", p, k, fresh_kinds[0]))
                ops.append(("set", p, k, "list2"))
                if not n.arg_types.get(k):
                    ops.append(("unset", p, k))
            elif isinstance(v, Expr) or v is None:
                for fk in fresh_kinds:
                    ops.append(("set", p, k, fk))
                if v is not None and not n.arg_types.get(k):
                    # required args are never unset: that builds an ill-formed tree (API misuse)
                    ops.append(("unset", p, k))
        if p:
            for fk in fresh_kinds[:2]:
                ops.append(("replace", p, fk))
            if isinstance(n.args.get("this"), Expr):
                ops.append(("lift", p))
            if n.index is not None:
                ops.append(("replace", p, "list2"))
            ops.append(("pop", p))
            # re-attachment: pop this node and store it somewhere else in the same tree
            for p2, n2 in allp:
                if p2[: len(p)] == p:
                    continue
                if not quick and isinstance(n2.args.get("this"), Expr):
                    ops.append(("move", p, p2, "this"))
                for k2, v2 in n2.args.items():
                    if type(v2) is list:
                        ops.append(("move_append", p, p2, k2))
                        break
        if len(p) <= 1:
            ops.append(("replace_children", p, "rename"))
            ops.append(("replace_children", p, "identity"))
    for name in TRANSFORMS:
        for copy in (True, False):
            ops.append(("transform", name, copy))
    if isinstance(main, exp.Select):
        for b in BUILDERS:
            for copy in (True, False):
                ops.append(("builder", b, copy))
    if isinstance(main, exp.Condition) and not isinstance(main, exp.Query):
        for b in COND_BUILDERS:
            for copy in (True, False):
                ops.append(("cond", b, copy))
        ops.append(("simplify",))
        ops.append(("alias", True))
        ops.append(("alias", False))
    if isinstance(main, exp.Query):
        for r in rules:
            ops.append(("rule", r))
    # dedupe, keep order
    seen, out = set(), []
    for o in ops:
        if o not in seen:
            seen.add(o)
            out.append(o)
    return out


SCHEMA = {"t": {"a": "INT", "b": "INT", "c": "INT", "d": "INT"}, "u": {"b": "INT", "e": "INT"}}


def apply(ws, op, observe: dict | None = None):
    """Apply op to the workspace in place: ws = [main, other]. Raises NotEnabled when the op does not
    apply to this state; library exceptions propagate to the caller."""
    main, other = ws
    name = op[0]
    if name == "hash":
        hash(node_at(main, op[1]))
    elif name == "eq":
        if other is None:
            raise NotEnabled(op)
        r = main == other
        if observe is not None:
            observe["eq"] = r
    elif name == "swap":
        if other is None:
            raise NotEnabled(op)
        ws[0], ws[1] = other, main
    elif name == "copy":
        c = main.copy()
        ws[0], ws[1] = c, main
    elif name == "set":
        node_at(main, op[1]).set(op[2], fresh(op[3]))
    elif name == "unset":
        node_at(main, op[1]).set(op[2], None)
    elif name == "seti":
        node_at(main, op[1]).set(op[2], fresh(op[4]), index=op[3])
    elif name == "insi":
        node_at(main, op[1]).set(op[2], fresh(op[4]), index=op[3], overwrite=False)
    elif name == "deli":
        node_at(main, op[1]).set(op[2], None, index=op[3])
    elif name == "append":
        node_at(main, op[1]).append(op[2], fresh(op[3]))
    elif name == "replace":
        node_at(main, op[1]).replace(fresh(op[2]))
    elif name == "lift":
        n = node_at(main, op[1])
        child = n.args.get("this")
        if not isinstance(child, Expr):
            raise NotEnabled(op)
        n.replace(child)
    elif name == "pop":
        node_at(main, op[1]).pop()
    elif name in ("move", "move_append"):
        n = node_at(main, op[1])
        target = node_at(main, op[2])
        n.pop()
        if name == "move":
            target.set(op[3], n)
        else:
            target.append(op[3], n)
    elif name == "replace_children":
        exp.replace_children(node_at(main, op[1]), TRANSFORMS[op[2]])
    elif name == "transform":
        r = main.transform(TRANSFORMS[op[1]], copy=op[2])
        if r is None or not isinstance(r, Expr):
            raise NotEnabled(op)
        if r is not main:
            ws[0], ws[1] = r, main
    elif name == "builder":
        b, copy = op[1], op[2]
        if not isinstance(main, exp.Select):
            raise NotEnabled(op)
        if b == "select":
            r = main.select("z", copy=copy)
        elif b == "where":
            r = main.where("z > 1", copy=copy)
        elif b == "join":
            r = main.join("v", on="v.b = t.b", copy=copy)
        elif b == "order_by":
            r = main.order_by("z", copy=copy)
        elif b == "limit":
            r = main.limit(3, copy=copy)
        elif b == "group_by":
            r = main.group_by("z", copy=copy)
        elif b == "having":
            r = main.having("z > 1", copy=copy)
        elif b == "distinct":
            r = main.distinct(copy=copy)
        elif b == "from_":
            r = main.from_("w", copy=copy)
        elif b == "with_":
            r = main.with_("cte1", as_="SELECT 1 AS one", copy=copy)
        else:
            raise KeyError(b)
        if r is not main:
            ws[0], ws[1] = r, main
    elif name == "cond":
        b, copy = op[1], op[2]
        if b == "and_":
            r = main.and_("z > 1", copy=copy)
        elif b == "or_":
            r = main.or_("z > 1", copy=copy)
        else:
            r = main.not_(copy=copy)
        ws[0], ws[1] = r, (main if copy else None)
    elif name == "alias":
        r = exp.alias_(main, "al", copy=op[1])
        ws[0], ws[1] = r, (main if op[1] else None)
    elif name == "simplify":
        from sqlglot.optimizer.simplify import simplify

        require_wellformed(main, op)
        r = simplify(main)
        if r is not main:
            ws[0], ws[1] = r, None
    elif name == "rule":
        import inspect

        from sqlglot.optimizer import optimizer as opt
        from sqlglot.schema import ensure_schema

        rule = {r.__name__: r for r in opt.RULES}[op[1]]
        require_wellformed(main, op)
        possible = {"schema": ensure_schema(SCHEMA), "dialect": None, "isolate_tables": True, "quote_identifiers": False,
                    "db": None, "catalog": None, "sql": None}
        params = inspect.getfullargspec(rule).args
        r = rule(main, **{p: possible[p] for p in params if p in possible})
        if r is not main:
            ws[0], ws[1] = r, None
    else:
        raise KeyError(op)


def require_wellformed(tree, op) -> None:
    """Optimizer rules and simplify are only applied to trees that are real SQL: a cache-free rebuild of
    the tree must render to text that parses back to the same structure. (Edits such as storing a WITH
    clause in a projection list build trees no parser produces; rules are not specified on those.)"""
    import sqlglot

    probe = fpm.rebuild(tree)
    try:
        back = sqlglot.parse_one(probe.sql())
    except Exception:
        raise NotEnabled(op)
    if fpm.fingerprint(back, "eq") != fpm.fingerprint(probe, "eq"):
        raise NotEnabled(op)


def op_name(op) -> str:
    n = op[0]
    if n in ("transform", "builder", "cond", "rule"):
        return f"{n}:{op[1]}" + (f":copy={op[2]}" if len(op) > 2 else "")
    if n in ("set", "replace"):
        return f"{n}:{op[-1]}"
    if n == "seti":
        return f"seti:{op[4]}"
    return n
