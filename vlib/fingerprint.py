"""O3 - structural fingerprints and tree invariants, written without using the library's own
traversal / hashing / equality helpers (only `.args`, `.parent`, `.arg_key`, `.index`, `.comments`,
`._type`, `._meta`, `._hash` are read)."""
from __future__ import annotations

import typing as t

from sqlglot import exp
from sqlglot.expressions.core import Expr

NONE = ("<none>",)


def children(node: Expr) -> t.Iterator[tuple[str, int | None, Expr]]:
    for k, v in node.args.items():
        if isinstance(v, Expr):
            yield k, None, v
        elif type(v) is list:
            for i, x in enumerate(v):
                if isinstance(x, Expr):
                    yield k, i, x


def nodes(root: Expr) -> list[Expr]:
    out, stack, seen = [], [root], set()
    while stack:
        n = stack.pop()
        if id(n) in seen:
            continue
        seen.add(id(n))
        out.append(n)
        for _, _, c in children(n):
            stack.append(c)
    return out


def _val(v: t.Any, mode: str, lower: bool):
    if isinstance(v, Expr):
        return fingerprint(v, mode)
    if type(v) is str and lower:
        return v.lower()
    if isinstance(v, (list, tuple)):
        return tuple(_val(x, mode, lower) for x in v)
    if isinstance(v, dict):
        return tuple((k, _val(x, mode, lower)) for k, x in v.items())
    if isinstance(v, (str, int, float, bool)) or v is None:
        return (type(v).__name__, v)
    return ("obj", type(v).__name__, repr(v))


def fingerprint(node: t.Any, mode: str = "exact"):
    """mode
    exact - everything as stored: args (missing / None / [] distinguished), comments, type, meta
    serde - like exact but a missing arg and None are one thing (serde transports no None); [] is a value of its own
    eq    - what the library's documented equality looks at: class + args, None/False/missing equal,
            strings of ordinary nodes case-insensitive, Identifier/Literal-style raw nodes as is,
            comments / type / meta ignored
    """
    if not isinstance(node, Expr):
        return _val(node, mode, False)
    cls = type(node).__name__
    if not type(node).__module__.startswith("sqlglot."):
        cls = f"{type(node).__module__}.{cls}"   # a class defined outside the library is not its namesake in sqlglot.expressions
    if mode == "eq":
        raw = bool(getattr(node, "_hash_raw_args", False))
        items = []
        for k in sorted(node.args):
            v = node.args[k]
            if raw:
                if v:
                    items.append((k, _val(v, mode, False)))
                continue
            if type(v) is list:
                if v:
                    items.append((k, tuple(NONE if (x is None or x is False) else _val(x, mode, True) for x in v)))
            elif v is not None and v is not False:
                items.append((k, (_val(v, mode, True),)))
        return (cls, tuple(items))
    items = []
    for k in sorted(node.args):
        v = node.args[k]
        if mode == "serde" and v is None:
            continue
        items.append((k, _val(v, mode, False)))
    typ = getattr(node, "_type", None)
    if mode == "serde":
        # the public type (for casts that is `_type or to`), which is what serde transports
        typ = node.type
        if typ is node:
            typ = None
    meta = getattr(node, "_meta", None)
    comments = getattr(node, "comments", None)
    if mode == "serde":
        comments = tuple(comments) if comments else None
        meta = _val(meta, mode, False) if meta else None
    else:
        comments = tuple(comments) if comments is not None else None
        meta = _val(meta, mode, False) if meta is not None else None
    return (cls, tuple(items), comments, fingerprint(typ, mode) if typ is not None else None, meta)


def link_problems(root: Expr) -> list[str]:
    """I1 every child's (parent, arg_key, index) equals where it is stored; I2 no node stored twice."""
    problems: list[str] = []
    seen: dict[int, str] = {}
    stack: list[tuple[Expr, str]] = [(root, "")]
    while stack:
        n, path = stack.pop()
        if id(n) in seen:
            problems.append(f"I2 node {type(n).__name__} stored at both {seen[id(n)] or '/'} and {path or '/'}")
            continue
        seen[id(n)] = path
        for k, i, c in children(n):
            cpath = f"{path}/{k}" + (f"[{i}]" if i is not None else "")
            if c.parent is not n:
                problems.append(f"I1 {cpath}: parent is {type(c.parent).__name__ if c.parent is not None else None}, stored under {type(n).__name__}")
            if c.arg_key != k:
                problems.append(f"I1 {cpath}: arg_key={c.arg_key!r}")
            if c.index != i:
                problems.append(f"I1 {cpath}: index={c.index!r}")
            stack.append((c, cpath))
    return problems


def rebuild(node: t.Any) -> t.Any:
    """A structurally identical tree built node by node from args: carries no cached hash."""
    if not isinstance(node, Expr):
        return node
    new = node.__class__()
    for k, v in node.args.items():
        if isinstance(v, Expr):
            c = rebuild(v)
            new.args[k] = c
            c.parent, c.arg_key, c.index = new, k, None
        elif type(v) is list:
            lst = []
            for i, x in enumerate(v):
                if isinstance(x, Expr):
                    c = rebuild(x)
                    c.parent, c.arg_key, c.index = new, k, i
                    lst.append(c)
                else:
                    lst.append(x)
            new.args[k] = lst
        else:
            new.args[k] = v
    return new


def hash_problems(root: Expr) -> list[str]:
    """I3 every cached hash equals the hash recomputed from scratch."""
    problems = []
    for n in nodes(root):
        h = getattr(n, "_hash", None)
        if h is not None:
            fresh = hash(rebuild(n))
            if fresh != h:
                problems.append(f"I3 stale cached hash on {type(n).__name__} `{safe_sql(n)}`")
    return problems


def cached_paths(root: Expr) -> frozenset:
    out = set()
    stack = [(root, "")]
    seen = set()
    while stack:
        n, path = stack.pop()
        if id(n) in seen:
            continue
        seen.add(id(n))
        if getattr(n, "_hash", None) is not None:
            out.add(path)
        for k, i, c in children(n):
            stack.append((c, f"{path}/{k}" + (f"[{i}]" if i is not None else "")))
    return frozenset(out)


def safe_sql(n: t.Any) -> str:
    try:
        return n.sql()
    except Exception as e:  # noqa
        return f"<{type(n).__name__}: unrenderable {type(e).__name__}>"


def node_ids(root: Expr) -> set[int]:
    return {id(n) for n in nodes(root)}


def tree_problems(root: Expr) -> list[str]:
    return link_problems(root) + hash_problems(root)
