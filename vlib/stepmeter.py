"""O4 - deterministic work counter built on sys.monitoring (PEP 669).

Counts PY_START, JUMP and BRANCH events in code objects whose file lives under /repo/sqlglot, i.e. every
call and every loop iteration / branch of library code. A budget turns "does not terminate" and
"super-polynomial" into a deterministic BudgetExceeded instead of a wall-clock guess."""
from __future__ import annotations

import sys

TOOL = 4
from vlib.paths import SQLGLOT

PREFIX = SQLGLOT


class BudgetExceeded(BaseException):
    pass


class Meter:
    def __init__(self):
        self.count = 0
        self.budget = 1 << 62
        self.installed = False

    def install(self):
        if self.installed:
            return
        mon = sys.monitoring
        try:
            mon.use_tool_id(TOOL, "verif-stepmeter")
        except ValueError:
            pass
        E = mon.events
        meter = self

        def on_event(code, *args):
            if not code.co_filename.startswith(PREFIX):
                return mon.DISABLE
            meter.count += 1
            if meter.count > meter.budget:
                meter.budget = 1 << 62  # raise once
                raise BudgetExceeded(f"step budget exceeded in {code.co_filename.rsplit('/', 1)[-1]}:{code.co_name}")

        for ev in (E.PY_START, E.JUMP):
            mon.register_callback(TOOL, ev, on_event)
        mon.set_events(TOOL, E.PY_START | E.JUMP)
        self.installed = True

    def run(self, fn, budget: int):
        """Returns (result, exception, steps)."""
        self.count = 0
        self.budget = budget
        try:
            return fn(), None, self.count
        except BudgetExceeded as e:
            return None, e, self.count
        except RecursionError as e:
            return None, e, self.count
        except Exception as e:  # noqa
            return None, e, self.count
        finally:
            self.budget = 1 << 62


METER = Meter()
