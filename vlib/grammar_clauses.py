"""G_clauses - every SUBSET of the optional clauses of each statement kind (clause interactions: ordering of clauses in
the generator vs. the order the parser reads them, clauses that are only legal together, trailing modifiers).

Complete subset enumeration (not deviation-bounded): the spaces are small (2^n per statement kind with n <= 12).
Every statement carries the tags of the clauses it contains, so that violations are reported for minimal clause sets."""
from __future__ import annotations

import functools
import itertools


def _subsets(names):
    for r in range(len(names) + 1):
        yield from itertools.combinations(names, r)


def _select():
    # (name, text) in the order SQL writes them; FROM is always present
    pre = [("with", "WITH c AS (SELECT 1 AS a) ")]
    head = [("distinct", "DISTINCT ")]
    tail = [("join", " JOIN u ON t.a = u.a"), ("where", " WHERE t.a > 1"), ("group", " GROUP BY t.a"), ("having", " HAVING COUNT(*) > 1"),
            ("window", " WINDOW w AS (PARTITION BY t.a)"), ("qualify", " QUALIFY ROW_NUMBER() OVER (ORDER BY t.a) = 1"), ("order", " ORDER BY t.a"),
            ("limit", " LIMIT 2"), ("offset", " OFFSET 1"), ("lock", " FOR UPDATE")]
    names = [n for n, _ in pre + head + tail]
    text = dict(pre + head + tail)
    for sub in _subsets(names):
        s = set(sub)
        if "having" in s and "group" not in s:
            continue
        sql = (text["with"] if "with" in s else "") + "SELECT " + (text["distinct"] if "distinct" in s else "") + "t.a FROM t"
        for n, tx in tail:
            if n in s:
                sql += tx
        yield sql, tuple("select." + n for n in sub) or ("select",)


def _dml():
    out = []
    delete = [("using", " USING u"), ("where", " WHERE a = 1"), ("returning", " RETURNING a"), ("order", " ORDER BY b"), ("limit", " LIMIT 2")]
    for sub in _subsets([n for n, _ in delete]):
        for w in ("", "WITH c AS (SELECT 1 AS a) "):
            sql = w + "DELETE FROM t" + "".join(tx for n, tx in delete if n in sub)
            out.append((sql, tuple("delete." + n for n in sub) + (("delete.with",) if w else ()) or ("delete",)))
    update = [("from", " FROM u"), ("where", " WHERE t.a = 1"), ("returning", " RETURNING a"), ("order", " ORDER BY b"), ("limit", " LIMIT 2")]
    for sub in _subsets([n for n, _ in update]):
        for w in ("", "WITH c AS (SELECT 1 AS a) "):
            sql = w + "UPDATE t SET a = 1, b = b + 1" + "".join(tx for n, tx in update if n in sub)
            out.append((sql, tuple("update." + n for n in sub) + (("update.with",) if w else ()) or ("update",)))
    sources = [("values", " VALUES (1, 2), (3, 4)"), ("select", " SELECT a, b FROM u"), ("default", " DEFAULT VALUES"), ("select_paren", " (SELECT a, b FROM u)"),
               ("with_select", " WITH c AS (SELECT 1 AS a, 2 AS b) SELECT a, b FROM c")]
    conflicts = [("", ""), ("on_conflict_nothing", " ON CONFLICT (a) DO NOTHING"), ("on_conflict_update", " ON CONFLICT (a) DO UPDATE SET b = 1"),
                 ("on_duplicate", " ON DUPLICATE KEY UPDATE b = 1")]
    for cols in ("", " (a, b)"):
        for sn, st in sources:
            for cn, ct in conflicts:
                for ret in ("", " RETURNING a"):
                    for head, hn in (("INSERT INTO t", ""), ("INSERT OR REPLACE INTO t", "or_replace"), ("INSERT OVERWRITE TABLE t", "overwrite"), ("REPLACE INTO t", "replace")):
                        if sn == "default" and cols:
                            continue
                        tags = ["insert." + sn] + (["insert.cols"] if cols else []) + (["insert." + cn] if cn else []) + (["insert.returning"] if ret else []) + (["insert." + hn] if hn else [])
                        out.append((head + cols + st + ct + ret, tuple(tags)))
    whens = [("matched_update", " WHEN MATCHED THEN UPDATE SET a = u.a"), ("matched_cond_delete", " WHEN MATCHED AND u.b = 1 THEN DELETE"),
             ("not_matched_insert", " WHEN NOT MATCHED THEN INSERT (a, b) VALUES (u.a, u.b)"), ("not_matched_by_source", " WHEN NOT MATCHED BY SOURCE THEN DELETE")]
    for sub in _subsets([n for n, _ in whens]):
        if not sub:
            continue
        for ret in ("", " RETURNING t.a"):
            sql = "MERGE INTO t USING u ON t.a = u.a" + "".join(tx for n, tx in whens if n in sub) + ret
            out.append((sql, tuple("merge." + n for n in sub) + (("merge.returning",) if ret else ())))
    return out


def _ddl():
    out = []
    constraints = [("not_null", " NOT NULL"), ("default", " DEFAULT 1"), ("pk", " PRIMARY KEY"), ("unique", " UNIQUE"), ("check", " CHECK (a > 0)"),
                   ("references", " REFERENCES u (a)"), ("comment", " COMMENT 'c'"), ("generated", " GENERATED ALWAYS AS IDENTITY")]
    for sub in _subsets([n for n, _ in constraints]):
        if len(sub) > 3:
            continue
        sql = "CREATE TABLE t (a INT" + "".join(tx for n, tx in constraints if n in sub) + ", b TEXT)"
        out.append((sql, tuple("col." + n for n in sub) or ("create.table",)))
    mods = [("or_replace", "OR REPLACE "), ("temp", "TEMPORARY "), ("if_not_exists", "IF NOT EXISTS ")]
    for sub in _subsets([n for n, _ in mods]):
        for kind, body in (("TABLE", " (a INT, b TEXT)"), ("TABLE", " AS SELECT a FROM u"), ("VIEW", " AS SELECT a FROM u"), ("TABLE", " (a INT, PRIMARY KEY (a), CONSTRAINT k UNIQUE (a), FOREIGN KEY (a) REFERENCES u (a))"),
                           ("TABLE", " LIKE u"), ("VIEW", " (x) AS SELECT a FROM u"), ("TABLE", " (a INT) AS SELECT a FROM u")):
            sql = "CREATE " + ("OR REPLACE " if "or_replace" in sub else "") + ("TEMPORARY " if "temp" in sub else "") + kind + " " + ("IF NOT EXISTS " if "if_not_exists" in sub else "") + "t" + body
            out.append((sql, tuple("create." + n for n in sub) + ("create." + kind.lower() + "." + ("as" if " AS " in body else "like" if "LIKE" in body else "cols"),)))
    for kind in ("TABLE", "VIEW", "INDEX", "SCHEMA"):
        for ie in ("", "IF EXISTS "):
            for casc in ("", " CASCADE", " RESTRICT"):
                out.append((f"DROP {kind} {ie}t{casc}", ("drop." + kind.lower(),) + (("drop.if_exists",) if ie else ()) + (("drop." + casc.strip().lower(),) if casc else ())))
    for act, tag in (("ADD COLUMN c INT", "add"), ("ADD COLUMN IF NOT EXISTS c INT DEFAULT 1", "add_default"), ("DROP COLUMN c", "drop"), ("DROP COLUMN IF EXISTS c CASCADE", "drop_cascade"),
                     ("RENAME TO v", "rename"), ("RENAME COLUMN a TO c", "rename_column"), ("ALTER COLUMN a SET DEFAULT 1", "set_default"), ("ALTER COLUMN a DROP DEFAULT", "drop_default"),
                     ("ALTER COLUMN a SET DATA TYPE TEXT", "set_type"), ("ADD CONSTRAINT k PRIMARY KEY (a)", "add_constraint"), ("DROP CONSTRAINT k", "drop_constraint"),
                     ("ADD COLUMN c INT, ADD COLUMN d INT", "add_two"), ("ALTER COLUMN a SET NOT NULL", "set_not_null")):
        for ie in ("", "IF EXISTS "):
            out.append((f"ALTER TABLE {ie}t {act}", ("alter." + tag,) + (("alter.if_exists",) if ie else ())))
    for u in ("", "UNIQUE "):
        for ine in ("", "IF NOT EXISTS "):
            for cols in ("(a)", "(a DESC, b)", "(a) WHERE a > 1", "USING BTREE (a)"):
                out.append((f"CREATE {u}INDEX {ine}i ON t {cols}", ("index",) + (("index.unique",) if u else ()) + (("index.if_not_exists",) if ine else ()) + ("index." + cols.split("(")[0].strip().lower() if not cols.startswith("(") else "index.cols" + str(len(cols)),)))
    return out


def _setops():
    out = []
    ops = ["UNION", "UNION ALL", "UNION DISTINCT", "INTERSECT", "EXCEPT", "INTERSECT ALL", "EXCEPT ALL"]
    tails = [("order", " ORDER BY a"), ("limit", " LIMIT 1"), ("offset", " OFFSET 1")]
    for op in ops:
        for sub in _subsets([n for n, _ in tails]):
            t = "".join(tx for n, tx in tails if n in sub)
            tag = ("setop." + op.lower().replace(" ", "_"),) + tuple("setop." + n for n in sub)
            out.append((f"SELECT a FROM t {op} SELECT a FROM u{t}", tag))
            out.append((f"(SELECT a FROM t ORDER BY a LIMIT 1) {op} (SELECT a FROM u ORDER BY a LIMIT 1){t}", tag + ("setop.paren_operands",)))
    for o1, o2 in itertools.product(ops[:5], repeat=2):
        tg = ("setop." + o1.lower().replace(" ", "_"), "setop2." + o2.lower().replace(" ", "_"))
        out.append((f"SELECT a FROM t {o1} SELECT a FROM u {o2} SELECT a FROM v", tg + ("setop.left_deep",)))
        out.append((f"SELECT a FROM t {o1} (SELECT a FROM u {o2} SELECT a FROM v)", tg + ("setop.right_nested",)))
        out.append((f"(SELECT a FROM t {o1} SELECT a FROM u) {o2} SELECT a FROM v ORDER BY a LIMIT 1", tg + ("setop.left_paren", "setop.order", "setop.limit")))
    return out


def _windows():
    out = []
    frames = ["", " ROWS BETWEEN UNBOUNDED PRECEDING AND CURRENT ROW", " ROWS BETWEEN 1 PRECEDING AND 1 FOLLOWING", " RANGE BETWEEN UNBOUNDED PRECEDING AND UNBOUNDED FOLLOWING",
              " ROWS UNBOUNDED PRECEDING", " ROWS BETWEEN CURRENT ROW AND UNBOUNDED FOLLOWING", " GROUPS BETWEEN 1 PRECEDING AND CURRENT ROW",
              " ROWS BETWEEN 1 PRECEDING AND 1 FOLLOWING EXCLUDE CURRENT ROW", " RANGE BETWEEN INTERVAL '1' DAY PRECEDING AND CURRENT ROW"]
    for fn, ftag in (("SUM(b)", "sum"), ("ROW_NUMBER()", "row_number"), ("LAG(b, 1, 0)", "lag"), ("FIRST_VALUE(b) IGNORE NULLS", "ignore_nulls"), ("FIRST_VALUE(b IGNORE NULLS)", "ignore_nulls_inside"),
                     ("NTH_VALUE(b, 2) FROM FIRST", "from_first"), ("COUNT(*) FILTER (WHERE a > 1)", "filter"), ("COUNT(DISTINCT b)", "distinct")):
        for part in ("", "PARTITION BY a"):
            for order in ("", "ORDER BY b", "ORDER BY b DESC NULLS FIRST, a"):
                for fi, frame in enumerate(frames):
                    if frame and not order and "RANGE BETWEEN INTERVAL" in frame:
                        continue
                    spec = " ".join(x for x in (part, order) if x) + frame
                    tags = ("win." + ftag,) + (("win.partition",) if part else ()) + (("win.order",) if order else ()) + (("win.frame%d" % fi,) if frame else ())
                    out.append((f"SELECT {fn} OVER ({spec.strip()}) FROM t", tags))
        out.append((f"SELECT {fn} OVER w FROM t WINDOW w AS (PARTITION BY a ORDER BY b)", ("win." + ftag, "win.named")))
        out.append((f"SELECT {fn} OVER (w ORDER BY b) FROM t WINDOW w AS (PARTITION BY a)", ("win." + ftag, "win.named_extended")))
    aggs = [("ARRAY_AGG(a ORDER BY b)", "agg.order"), ("ARRAY_AGG(DISTINCT a ORDER BY a DESC)", "agg.distinct_order"), ("STRING_AGG(s, ',' ORDER BY b)", "agg.string_agg_order"),
            ("PERCENTILE_CONT(0.5) WITHIN GROUP (ORDER BY a)", "agg.within_group"), ("COUNT(*) FILTER (WHERE a > 1)", "agg.filter"), ("SUM(a) FILTER (WHERE a > 1) OVER (PARTITION BY b)", "agg.filter_over"),
            ("ARRAY_AGG(a ORDER BY b LIMIT 2)", "agg.order_limit"), ("GROUP_CONCAT(DISTINCT s ORDER BY s SEPARATOR ';')", "agg.group_concat"), ("LISTAGG(s, ',') WITHIN GROUP (ORDER BY s)", "agg.listagg"),
            ("ARRAY_AGG(a IGNORE NULLS)", "agg.ignore_nulls"), ("ANY_VALUE(a HAVING MAX b)", "agg.having_max")]
    for a, tag in aggs:
        out.append((f"SELECT {a} FROM t", (tag,)))
        out.append((f"SELECT b, {a} AS x FROM t GROUP BY b HAVING {a} IS NOT NULL ORDER BY 2", (tag, "agg.in_having")))
    groupings = ["GROUP BY a, b", "GROUP BY ALL", "GROUP BY ROLLUP (a, b)", "GROUP BY CUBE (a, b)", "GROUP BY GROUPING SETS ((a), (a, b), ())", "GROUP BY a, ROLLUP (b)", "GROUP BY a WITH ROLLUP",
                 "GROUP BY 1, 2", "GROUP BY DISTINCT a, b"]
    for g in groupings:
        out.append((f"SELECT a, b, COUNT(*) FROM t {g}", ("group." + g[9:].split(" ")[0].strip("(").lower() + str(len(g)),)))
        out.append((f"SELECT a, b, COUNT(*) FROM t {g} HAVING COUNT(*) > 1 ORDER BY a", ("group." + g[9:].split(" ")[0].strip("(").lower() + str(len(g)), "group.having_order")))
    return out


def _joins():
    out = []
    kinds = ["JOIN", "INNER JOIN", "LEFT JOIN", "LEFT OUTER JOIN", "RIGHT JOIN", "FULL JOIN", "FULL OUTER JOIN", "CROSS JOIN", "NATURAL JOIN", "NATURAL LEFT JOIN", "LEFT SEMI JOIN", "LEFT ANTI JOIN",
             "SEMI JOIN", "ANTI JOIN", "ASOF JOIN", "CROSS JOIN LATERAL", "LEFT JOIN LATERAL", "JOIN LATERAL", ","]
    conds = [("", "none"), (" ON t.a = u.a", "on"), (" USING (a)", "using"), (" ON t.a = u.a AND t.b > u.b", "on_and"), (" ON TRUE", "on_true")]
    for k in kinds:
        for c, ct in conds:
            right = "(SELECT a, b FROM u) AS u" if "LATERAL" in k else "u"
            out.append((f"SELECT t.a FROM t {k} {right}{c}".replace(" , ", ", "), ("join." + k.lower().replace(" ", "_").replace(",", "comma"), "join." + ct)))
    for k1, k2 in itertools.product(["JOIN", "LEFT JOIN", "CROSS JOIN", ","], repeat=2):
        c1 = "" if k1 in ("CROSS JOIN", ",") else " ON t.a = u.a"
        c2 = "" if k2 in ("CROSS JOIN", ",") else " ON u.a = v.a"
        tg = ("join2." + k1.lower().replace(" ", "_").replace(",", "comma"), "join2b." + k2.lower().replace(" ", "_").replace(",", "comma"))
        out.append((f"SELECT t.a FROM t {k1} u{c1} {k2} v{c2}".replace(" , ", ", "), tg))
        out.append((f"SELECT t.a FROM t {k1} (u {k2} v{c2}){c1}".replace(" , ", ", "), tg + ("join2.nested",)))
    froms = ["t AS x", "t x", "(SELECT a FROM t) AS x", "(SELECT a FROM t) AS x(c)", "t TABLESAMPLE (10 PERCENT)", "UNNEST(arr) AS x", "UNNEST(arr) WITH ORDINALITY AS x(v, i)", "(VALUES (1, 2), (3, 4)) AS x(a, b)",
             "LATERAL (SELECT 1) AS x", "db.t", "cat.db.t", "t PIVOT(SUM(b) FOR a IN ('x', 'y'))", "t UNPIVOT(v FOR k IN (a, b))", "generate_series(1, 3) AS x", "t FOR SYSTEM_TIME AS OF '2020-01-01'", "ONLY t",
             "t, u", "(t)", "(t JOIN u ON t.a = u.a)", "t AS x TABLESAMPLE BERNOULLI (5)", "t MATCH_RECOGNIZE (PARTITION BY a ORDER BY b MEASURES FIRST(b) AS fb PATTERN (A B*) DEFINE B AS b > 1)"]
    for i, f in enumerate(froms):
        out.append((f"SELECT * FROM {f}", ("from.%d" % i,)))
        out.append((f"SELECT * FROM {f} WHERE 1 = 1 ORDER BY 1 LIMIT 1", ("from.%d" % i, "from.with_tail")))
    return out


@functools.lru_cache(None)
def clause_statements() -> tuple:
    """(sql, tags) for every statement of the clause-subset spaces (written in the common SQL spelling; each dialect parses what
    it can - statements a dialect rejects are outside its space)."""
    seen, out = set(), []
    for gen in (_select, _dml, _ddl, _setops, _windows, _joins):
        for sql, tags in gen():
            if sql not in seen:
                seen.add(sql)
                out.append((sql, tuple(tags)))
    return tuple(out)
