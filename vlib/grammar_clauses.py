"""G_clauses - every SUBSET of the optional clauses of each statement kind (clause interactions: ordering of clauses in
the generator vs. the order the parser reads them, clauses that are only legal together, trailing modifiers).

Complete subset enumeration (not deviation-bounded): the spaces are small (2^n per statement kind with n <= 12).
Every statement carries the tags of the clauses it contains, so that violations are reported for minimal clause sets."""
from __future__ import annotations

import functools
import itertools


def _subsets(names):
    for r in range(len(names) + 1):
        yield from itertools.combinations(names, r)


def _select():
    # (name, text) in the order SQL writes them; FROM is always present
    pre = [("with", "WITH c AS (SELECT 1 AS a) ")]
    head = [("distinct", "DISTINCT ")]
    tail = [("join", " JOIN u ON t.a = u.a"), ("where", " WHERE t.a > 1"), ("group", " GROUP BY t.a"), ("having", " HAVING COUNT(*) > 1"),
            ("window", " WINDOW w AS (PARTITION BY t.a)"), ("qualify", " QUALIFY ROW_NUMBER() OVER (ORDER BY t.a) = 1"), ("order", " ORDER BY t.a"),
            ("limit", " LIMIT 2"), ("offset", " OFFSET 1"), ("lock", " FOR UPDATE")]
    names = [n for n, _ in pre + head + tail]
    text = dict(pre + head + tail)
    for sub in _subsets(names):
        s = set(sub)
        if "having" in s and "group" not in s:
            continue
        sql = (text["with"] if "with" in s else "") + "SELECT " + (text["distinct"] if "distinct" in s else "") + "t.a FROM t"
        for n, tx in tail:
            if n in s:
                sql += tx
        yield sql, tuple("select." + n for n in sub) or ("select",)


def _dml():
    out = []
    delete = [("using", " USING u"), ("where", " WHERE a = 1"), ("returning", " RETURNING a"), ("order", " ORDER BY b"), ("limit", " LIMIT 2")]
    for sub in _subsets([n for n, _ in delete]):
        for w in ("", "WITH c AS (SELECT 1 AS a) "):
            sql = w + "DELETE FROM t" + "".join(tx for n, tx in delete if n in sub)
            out.append((sql, tuple("delete." + n for n in sub) + (("delete.with",) if w else ()) or ("delete",)))
    update = [("from", " FROM u"), ("where", " WHERE t.a = 1"), ("returning", " RETURNING a"), ("order", " ORDER BY b"), ("limit", " LIMIT 2")]
    for sub in _subsets([n for n, _ in update]):
        for w in ("", "WITH c AS (SELECT 1 AS a) "):
            sql = w + "UPDATE t SET a = 1, b = b + 1" + "".join(tx for n, tx in update if n in sub)
            out.append((sql, tuple("update." + n for n in sub) + (("update.with",) if w else ()) or ("update",)))
    sources = [("values", " VALUES (1, 2), (3, 4)"), ("select", " SELECT a, b FROM u"), ("default", " DEFAULT VALUES"), ("select_paren", " (SELECT a, b FROM u)"),
               ("with_select", " WITH c AS (SELECT 1 AS a, 2 AS b) SELECT a, b FROM c")]
    conflicts = [("", ""), ("on_conflict_nothing", " ON CONFLICT (a) DO NOTHING"), ("on_conflict_update", " ON CONFLICT (a) DO UPDATE SET b = 1"),
                 ("on_duplicate", " ON DUPLICATE KEY UPDATE b = 1")]
    for cols in ("", " (a, b)"):
        for sn, st in sources:
            for cn, ct in conflicts:
                for ret in ("", " RETURNING a"):
                    for head, hn in (("INSERT INTO t", ""), ("INSERT OR REPLACE INTO t", "or_replace"), ("INSERT OVERWRITE TABLE t", "overwrite"), ("REPLACE INTO t", "replace")):
                        if sn == "default" and cols:
                            continue
                        tags = ["insert." + sn] + (["insert.cols"] if cols else []) + (["insert." + cn] if cn else []) + (["insert.returning"] if ret else []) + (["insert." + hn] if hn else [])
                        out.append((head + cols + st + ct + ret, tuple(tags)))
    whens = [("matched_update", " WHEN MATCHED THEN UPDATE SET a = u.a"), ("matched_cond_delete", " WHEN MATCHED AND u.b = 1 THEN DELETE"),
             ("not_matched_insert", " WHEN NOT MATCHED THEN INSERT (a, b) VALUES (u.a, u.b)"), ("not_matched_by_source", " WHEN NOT MATCHED BY SOURCE THEN DELETE")]
    for sub in _subsets([n for n, _ in whens]):
        if not sub:
            continue
        for ret in ("", " RETURNING t.a"):
            sql = "MERGE INTO t USING u ON t.a = u.a" + "".join(tx for n, tx in whens if n in sub) + ret
            out.append((sql, tuple("merge." + n for n in sub) + (("merge.returning",) if ret else ())))
    return out


def _ddl():
    out = []
    constraints = [("not_null", " NOT NULL"), ("default", " DEFAULT 1"), ("pk", " PRIMARY KEY"), ("unique", " UNIQUE"), ("check", " CHECK (a > 0)"),
                   ("references", " REFERENCES u (a)"), ("comment", " COMMENT 'c'"), ("generated", " GENERATED ALWAYS AS IDENTITY")]
    for sub in _subsets([n for n, _ in constraints]):
        if len(sub) > 3:
            continue
        sql = "CREATE TABLE t (a INT" + "".join(tx for n, tx in constraints if n in sub) + ", b TEXT)"
        out.append((sql, tuple("col." + n for n in sub) or ("create.table",)))
    mods = [("or_replace", "OR REPLACE "), ("temp", "TEMPORARY "), ("if_not_exists", "IF NOT EXISTS ")]
    for sub in _subsets([n for n, _ in mods]):
        for kind, body in (("TABLE", " (a INT, b TEXT)"), ("TABLE", " AS SELECT a FROM u"), ("VIEW", " AS SELECT a FROM u"), ("TABLE", " (a INT, PRIMARY KEY (a), CONSTRAINT k UNIQUE (a), FOREIGN KEY (a) REFERENCES u (a))"),
                           ("TABLE", " LIKE u"), ("VIEW", " (x) AS SELECT a FROM u"), ("TABLE", " (a INT) AS SELECT a FROM u")):
            sql = "CREATE " + ("OR REPLACE " if "or_replace" in sub else "") + ("TEMPORARY " if "temp" in sub else "") + kind + " " + ("IF NOT EXISTS " if "if_not_exists" in sub else "") + "t" + body
            out.append((sql, tuple("create." + n for n in sub) + ("create." + kind.lower() + "." + ("as" if " AS " in body else "like" if "LIKE" in body else "cols"),)))
    for kind in ("TABLE", "VIEW", "INDEX", "SCHEMA"):
        for ie in ("", "IF EXISTS "):
            for casc in ("", " CASCADE", " RESTRICT"):
                out.append((f"DROP {kind} {ie}t{casc}", ("drop." + kind.lower(),) + (("drop.if_exists",) if ie else ()) + (("drop." + casc.strip().lower(),) if casc else ())))
    for act, tag in (("ADD COLUMN c INT", "add"), ("ADD COLUMN IF NOT EXISTS c INT DEFAULT 1", "add_default"), ("DROP COLUMN c", "drop"), ("DROP COLUMN IF EXISTS c CASCADE", "drop_cascade"),
                     ("RENAME TO v", "rename"), ("RENAME COLUMN a TO c", "rename_column"), ("ALTER COLUMN a SET DEFAULT 1", "set_default"), ("ALTER COLUMN a DROP DEFAULT", "drop_default"),
                     ("ALTER COLUMN a SET DATA TYPE TEXT", "set_type"), ("ADD CONSTRAINT k PRIMARY KEY (a)", "add_constraint"), ("DROP CONSTRAINT k", "drop_constraint"),
                     ("ADD COLUMN c INT, ADD COLUMN d INT", "add_two"), ("ALTER COLUMN a SET NOT NULL", "set_not_null")):
        for ie in ("", "IF EXISTS "):
            out.append((f"ALTER TABLE {ie}t {act}", ("alter." + tag,) + (("alter.if_exists",) if ie else ())))
    for u in ("", "UNIQUE "):
        for ine in ("", "IF NOT EXISTS "):
            for cols in ("(a)", "(a DESC, b)", "(a) WHERE a > 1", "USING BTREE (a)"):
                out.append((f"CREATE {u}INDEX {ine}i ON t {cols}", ("index",) + (("index.unique",) if u else ()) + (("index.if_not_exists",) if ine else ()) + ("index." + cols.split("(")[0].strip().lower() if not cols.startswith("(") else "index.cols" + str(len(cols)),)))
    return out


def _setops():
    out = []
    ops = ["UNION", "UNION ALL", "UNION DISTINCT", "INTERSECT", "EXCEPT", "INTERSECT ALL", "EXCEPT ALL"]
    tails = [("order", " ORDER BY a"), ("limit", " LIMIT 1"), ("offset", " OFFSET 1")]
    for op in ops:
        for sub in _subsets([n for n, _ in tails]):
            t = "".join(tx for n, tx in tails if n in sub)
            tag = ("setop." + op.lower().replace(" ", "_"),) + tuple("setop." + n for n in sub)
            out.append((f"SELECT a FROM t {op} SELECT a FROM u{t}", tag))
            out.append((f"(SELECT a FROM t ORDER BY a LIMIT 1) {op} (SELECT a FROM u ORDER BY a LIMIT 1){t}", tag + ("setop.paren_operands",)))
    for o1, o2 in itertools.product(ops[:5], repeat=2):
        tg = ("setop." + o1.lower().replace(" ", "_"), "setop2." + o2.lower().replace(" ", "_"))
        out.append((f"SELECT a FROM t {o1} SELECT a FROM u {o2} SELECT a FROM v", tg + ("setop.left_deep",)))
        out.append((f"SELECT a FROM t {o1} (SELECT a FROM u {o2} SELECT a FROM v)", tg + ("setop.right_nested",)))
        out.append((f"(SELECT a FROM t {o1} SELECT a FROM u) {o2} SELECT a FROM v ORDER BY a LIMIT 1", tg + ("setop.left_paren", "setop.order", "setop.limit")))
    return out


def _windows():
    out = []
    frames = ["", " ROWS BETWEEN UNBOUNDED PRECEDING AND CURRENT ROW", " ROWS BETWEEN 1 PRECEDING AND 1 FOLLOWING", " RANGE BETWEEN UNBOUNDED PRECEDING AND UNBOUNDED FOLLOWING",
              " ROWS UNBOUNDED PRECEDING", " ROWS BETWEEN CURRENT ROW AND UNBOUNDED FOLLOWING", " GROUPS BETWEEN 1 PRECEDING AND CURRENT ROW",
              " ROWS BETWEEN 1 PRECEDING AND 1 FOLLOWING EXCLUDE CURRENT ROW", " RANGE BETWEEN INTERVAL '1' DAY PRECEDING AND CURRENT ROW"]
    for fn, ftag in (("SUM(b)", "sum"), ("ROW_NUMBER()", "row_number"), ("LAG(b, 1, 0)", "lag"), ("FIRST_VALUE(b) IGNORE NULLS", "ignore_nulls"), ("FIRST_VALUE(b IGNORE NULLS)", "ignore_nulls_inside"),
                     ("NTH_VALUE(b, 2) FROM FIRST", "from_first"), ("COUNT(*) FILTER (WHERE a > 1)", "filter"), ("COUNT(DISTINCT b)", "distinct")):
        for part in ("", "PARTITION BY a"):
            for order in ("", "ORDER BY b", "ORDER BY b DESC NULLS FIRST, a"):
                for fi, frame in enumerate(frames):
                    if frame and not order and "RANGE BETWEEN INTERVAL" in frame:
                        continue
                    spec = " ".join(x for x in (part, order) if x) + frame
                    tags = ("win." + ftag,) + (("win.partition",) if part else ()) + (("win.order",) if order else ()) + (("win.frame%d" % fi,) if frame else ())
                    out.append((f"SELECT {fn} OVER ({spec.strip()}) FROM t", tags))
        out.append((f"SELECT {fn} OVER w FROM t WINDOW w AS (PARTITION BY a ORDER BY b)", ("win." + ftag, "win.named")))
        out.append((f"SELECT {fn} OVER (w ORDER BY b) FROM t WINDOW w AS (PARTITION BY a)", ("win." + ftag, "win.named_extended")))
    aggs = [("ARRAY_AGG(a ORDER BY b)", "agg.order"), ("ARRAY_AGG(DISTINCT a ORDER BY a DESC)", "agg.distinct_order"), ("STRING_AGG(s, ',' ORDER BY b)", "agg.string_agg_order"),
            ("PERCENTILE_CONT(0.5) WITHIN GROUP (ORDER BY a)", "agg.within_group"), ("COUNT(*) FILTER (WHERE a > 1)", "agg.filter"), ("SUM(a) FILTER (WHERE a > 1) OVER (PARTITION BY b)", "agg.filter_over"),
            ("ARRAY_AGG(a ORDER BY b LIMIT 2)", "agg.order_limit"), ("GROUP_CONCAT(DISTINCT s ORDER BY s SEPARATOR ';')", "agg.group_concat"), ("LISTAGG(s, ',') WITHIN GROUP (ORDER BY s)", "agg.listagg"),
            ("ARRAY_AGG(a IGNORE NULLS)", "agg.ignore_nulls"), ("ANY_VALUE(a HAVING MAX b)", "agg.having_max")]
    for a, tag in aggs:
        out.append((f"SELECT {a} FROM t", (tag,)))
        out.append((f"SELECT b, {a} AS x FROM t GROUP BY b HAVING {a} IS NOT NULL ORDER BY 2", (tag, "agg.in_having")))
    groupings = ["GROUP BY a, b", "GROUP BY ALL", "GROUP BY ROLLUP (a, b)", "GROUP BY CUBE (a, b)", "GROUP BY GROUPING SETS ((a), (a, b), ())", "GROUP BY a, ROLLUP (b)", "GROUP BY a WITH ROLLUP",
                 "GROUP BY 1, 2", "GROUP BY DISTINCT a, b"]
    for g in groupings:
        out.append((f"SELECT a, b, COUNT(*) FROM t {g}", ("group." + g[9:].split(" ")[0].strip("(").lower() + str(len(g)),)))
        out.append((f"SELECT a, b, COUNT(*) FROM t {g} HAVING COUNT(*) > 1 ORDER BY a", ("group." + g[9:].split(" ")[0].strip("(").lower() + str(len(g)), "group.having_order")))
    return out


def _joins():
    out = []
    kinds = ["JOIN", "INNER JOIN", "LEFT JOIN", "LEFT OUTER JOIN", "RIGHT JOIN", "FULL JOIN", "FULL OUTER JOIN", "CROSS JOIN", "NATURAL JOIN", "NATURAL LEFT JOIN", "LEFT SEMI JOIN", "LEFT ANTI JOIN",
             "SEMI JOIN", "ANTI JOIN", "ASOF JOIN", "CROSS JOIN LATERAL", "LEFT JOIN LATERAL", "JOIN LATERAL", ","]
    conds = [("", "none"), (" ON t.a = u.a", "on"), (" USING (a)", "using"), (" ON t.a = u.a AND t.b > u.b", "on_and"), (" ON TRUE", "on_true")]
    for k in kinds:
        for c, ct in conds:
            right = "(SELECT a, b FROM u) AS u" if "LATERAL" in k else "u"
            out.append((f"SELECT t.a FROM t {k} {right}{c}".replace(" , ", ", "), ("join." + k.lower().replace(" ", "_").replace(",", "comma"), "join." + ct)))
    for k1, k2 in itertools.product(["JOIN", "LEFT JOIN", "CROSS JOIN", ","], repeat=2):
        c1 = "" if k1 in ("CROSS JOIN", ",") else " ON t.a = u.a"
        c2 = "" if k2 in ("CROSS JOIN", ",") else " ON u.a = v.a"
        tg = ("join2." + k1.lower().replace(" ", "_").replace(",", "comma"), "join2b." + k2.lower().replace(" ", "_").replace(",", "comma"))
        out.append((f"SELECT t.a FROM t {k1} u{c1} {k2} v{c2}".replace(" , ", ", "), tg))
        out.append((f"SELECT t.a FROM t {k1} (u {k2} v{c2}){c1}".replace(" , ", ", "), tg + ("join2.nested",)))
    froms = ["t AS x", "t x", "(SELECT a FROM t) AS x", "(SELECT a FROM t) AS x(c)", "t TABLESAMPLE (10 PERCENT)", "UNNEST(arr) AS x", "UNNEST(arr) WITH ORDINALITY AS x(v, i)", "(VALUES (1, 2), (3, 4)) AS x(a, b)",
             "LATERAL (SELECT 1) AS x", "db.t", "cat.db.t", "t PIVOT(SUM(b) FOR a IN ('x', 'y'))", "t UNPIVOT(v FOR k IN (a, b))", "generate_series(1, 3) AS x", "t FOR SYSTEM_TIME AS OF '2020-01-01'", "ONLY t",
             "t, u", "(t)", "(t JOIN u ON t.a = u.a)", "t AS x TABLESAMPLE BERNOULLI (5)", "t MATCH_RECOGNIZE (PARTITION BY a ORDER BY b MEASURES FIRST(b) AS fb PATTERN (A B*) DEFINE B AS b > 1)",
             # (appended: the tags are positional) pivots with several aggregations, some unaliased, over qualified columns
             "t PIVOT(SUM(t.b), AVG(t.c) AS q FOR a IN ('x' AS x, 'y' AS y))", "t AS s PIVOT(SUM(s.b), MAX(s.c) FOR a IN ('x' AS x))",
             "t PIVOT(SUM(b) AS sb, COUNT(*) FOR a IN (1 AS one, 2 AS two))"]
    for i, f in enumerate(froms):
        out.append((f"SELECT * FROM {f}", ("from.%d" % i,)))
        out.append((f"SELECT * FROM {f} WHERE 1 = 1 ORDER BY 1 LIMIT 1", ("from.%d" % i, "from.with_tail")))
    return out


def _forms():
    """Flat menu of special syntactic forms (keyword-introduced arguments, type spellings, predicate and operator spellings,
    literal spellings, accessors, CTE / table modifiers): every form alone, and the expression forms also under NOT / in a CAST."""
    ex = {
        "interval": ["INTERVAL '1' DAY", "INTERVAL 1 DAY", "INTERVAL '1 day'", "INTERVAL '1-2' YEAR TO MONTH", "INTERVAL '1' HOUR TO SECOND", "INTERVAL '3 04:05' DAY TO MINUTE",
                     "INTERVAL (a) DAY", "INTERVAL a DAY", "INTERVAL '1 year 2 months'", "INTERVAL '-1' DAY", "INTERVAL '1' DAY + INTERVAL '2' HOUR", "d + INTERVAL '1' MONTH",
                     "INTERVAL '1.5' SECOND", "INTERVAL '2' WEEK", "INTERVAL '1' QUARTER", "INTERVAL 1 DAY * 2"],
        "extract": ["EXTRACT(YEAR FROM d)", "EXTRACT(EPOCH FROM ts)", "EXTRACT(DOW FROM d)", "EXTRACT(week FROM d)", "EXTRACT(TIMEZONE_HOUR FROM ts)", "EXTRACT(MILLISECOND FROM ts)",
                    "DATE_PART('year', d)", "DATE_TRUNC('day', ts)", "DATE_TRUNC('week', d)"],
        "substring": ["SUBSTRING(s FROM 2)", "SUBSTRING(s FROM 2 FOR 3)", "SUBSTRING(s, 2, 3)", "SUBSTR(s, 2)", "SUBSTRING(s FOR 3)", "LEFT(s, 2)", "RIGHT(s, 2)"],
        "overlay": ["OVERLAY(s PLACING 'x' FROM 2)", "OVERLAY(s PLACING 'x' FROM 2 FOR 3)"],
        "trim": ["TRIM(s)", "TRIM(LEADING 'x' FROM s)", "TRIM(TRAILING FROM s)", "TRIM(BOTH FROM s)", "TRIM('x' FROM s)", "TRIM(s, 'x')", "LTRIM(s, 'x')", "RTRIM(s)"],
        "position": ["POSITION('x' IN s)", "STRPOS(s, 'x')", "LOCATE('x', s, 2)", "INSTR(s, 'x')", "CHARINDEX('x', s)"],
        "pred": ["a IS DISTINCT FROM b", "a IS NOT DISTINCT FROM b", "s LIKE 'a%' ESCAPE '!'", "s NOT LIKE 'a'", "s ILIKE 'a'", "s SIMILAR TO 'a'", "s RLIKE 'a'", "s REGEXP 'a'", "s ~ 'a'",
                 "s GLOB 'a'", "a BETWEEN SYMMETRIC 1 AND 2", "a NOT BETWEEN 1 AND 2", "a IN (SELECT a FROM u)", "a = ANY (SELECT a FROM u)", "a > ALL (ARRAY[1, 2])", "s LIKE ANY ('a', 'b')",
                 "EXISTS (SELECT 1)", "a IS TRUE", "a IS NOT FALSE", "a IS UNKNOWN", "(a, b) = (1, 2)", "(a, b) IN ((1, 2))", "a <=> b", "a NOT IN (1, 2)", "NOT a IN (1, 2)", "a ISNULL",
                 "a NOTNULL", "a IS NOT NULL", "NOT a IS NULL", "a <> b", "a != b", "a == b", "s LIKE 'a' OR s LIKE 'b' AND a", "a IN (1)", "a IN ()", "s IS JSON", "a @> b", "a <@ b", "a && b"],
        "tz": ["ts AT TIME ZONE 'UTC'", "ts AT TIME ZONE 'UTC' AT TIME ZONE 'x'", "CAST(ts AS DATE) AT TIME ZONE 'UTC'", "s COLLATE \"C\"", "s COLLATE utf8_bin", "s COLLATE \"C\" = 'a'"],
        "nested": ["ARRAY[1, 2]", "[1, 2]", "ARRAY(SELECT a FROM u)", "{'a': 1}", "STRUCT(1 AS a)", "MAP(ARRAY['a'], ARRAY[1])", "ROW(1, 2)", "(1, 2)", "arr[1:2]", "arr[1]", "m['k']", "s.f.g",
                   "a -> 'k'", "a ->> 'k'", "a #> '{a}'", "a ? 'k'", "a || b", "arr[1][2]", "(arr)[1]", "ARRAY[1, 2][1]", "ARRAY[[1], [2]]", "STRUCT(1, 2).a", "a -> 'k' ->> 'j'", "x:y.z", "x:y::INT",
                   # subscripts that are zero / negative / computed (the parser shifts integer subscripts by the dialect's index base, the generator shifts back)
                   "arr[0]", "arr[-1]", "arr[-1][0]", "ARRAY[1, 2][-1]", "arr[2 - 1]", "arr[-a]", "m['k'][-2]", "arr[0:1]", "arr[-2:-1]"],
        "call": ["f(a => 1)", "f(a := 1)", "GENERATE_SERIES(1, 3)", "COALESCE(a)", "IF(a, 1, 2)", "IIF(a, 1, 2)", "NULLIF(a, 1)", "GREATEST(a, b)", "LEAST(a, b, 1)", "DATE_ADD(d, INTERVAL 1 DAY)",
                 "DATEDIFF(day, d, d2)", "DATE_DIFF(d, d2, DAY)", "TO_CHAR(ts, 'YYYY')", "CONCAT(a, b)", "CONCAT_WS(',', a, b)", "CURRENT_TIMESTAMP(3)", "CURRENT_TIMESTAMP", "LOCALTIME",
                 "NOW()", "COUNT(*)", "COUNT(DISTINCT a, b)", "ROUND(a, 2)", "LOG(2, a)", "LOG(a)", "LN(a)", "POWER(a, 2)", "SPLIT_PART(s, ',', 1)", "REGEXP_REPLACE(s, 'a', 'b', 'g')",
                 "JSON_EXTRACT(j, '$.a')", "JSON_OBJECT('a', 1)", "ANY_VALUE(a)", "XMLELEMENT(NAME x)", "CAST(a AS INT) + 1", "db.f(a)", "f(DISTINCT a)", "f(ALL a)", "f()", "f(*)"],
        "ops": ["x::INT::TEXT", "-(-a)", "- -a", "~a", "a ^ b", "a ** b", "a DIV b", "a % b", "a MOD b", "a << 1", "a & b | c", "a // b", "a # b", "+a", "a - -b", "a - (b - c)", "a / (b * c)",
                "(a + b) * c", "a * (b + c)", "-a ** 2", "(-a) ** 2", "NOT (a AND b)", "NOT a AND b", "a = b = c", "(a = b) = c", "a < b < c", "a IS NULL = b", "a || b || c", "a || (b || c)",
                "a + b || c", "CASE a WHEN 1 THEN 'x' END", "CASE WHEN a THEN 1 WHEN b THEN 2 ELSE 3 END", "CASE WHEN a THEN 1 END + 1", "(CASE WHEN a THEN 1 END)", "a XOR b", "a OR b AND c XOR d"],
        "lit": ["1e3", "1.5E-3", ".5", "5.", "0x1F", "1_000", "'a' 'b'", "N'x'", "E'\\n'", "B'101'", "X'1F'", "DATE '2020-01-01'", "TIME '01:02:03'", "TIMESTAMP '2020-01-01 00:00:00'", "TRUE", "NULL",
                "$1", "?", ":name", "@var", "${x}", "'it''s'", "''", "1.0", "-1", "9223372036854775808", "1.", "1e-2", "TIMESTAMP WITH TIME ZONE '2020-01-01 00:00:00+00'", "U&'d\\0061t'", "$$x$$", "r'a\\b'"],
    }
    types = ["DECIMAL(10, 2)", "NUMERIC(5)", "VARCHAR(10)", "CHAR(3)", "TIMESTAMP WITH TIME ZONE", "TIMESTAMP WITHOUT TIME ZONE", "TIMESTAMP(3)", "TIME WITH TIME ZONE", "DOUBLE PRECISION",
             "ARRAY<INT>", "INT[]", "INT[3]", "STRUCT<a INT, b TEXT>", "MAP<TEXT, INT>", "INTERVAL DAY TO SECOND", "INTERVAL", "BIGINT UNSIGNED", "NVARCHAR(MAX)", "BYTEA", "UUID", "JSON", "JSONB",
             "TINYINT", "REAL", "FLOAT(24)", "BOOLEAN", "DATE", "TEXT", "BLOB", "INT NOT NULL", "CHARACTER VARYING(5)", "NUMBER(38, 0)", "STRING", "INT64", "FLOAT64", "DATETIME", "TIMESTAMPTZ",
             "TIMESTAMP_NTZ", "VARIANT", "GEOGRAPHY", "ENUM('a', 'b')", "DECIMAL", "VARCHAR", "BIT(3)", "VARBINARY(10)", "my_type", "my_schema.my_type", "ROW(a INT, b TEXT)", "ARRAY(INT)", "NULLABLE(INT)",
             "LOWCARDINALITY(STRING)", "MAP(TEXT, INT)", "INT ARRAY", "TIMESTAMP(3) WITH TIME ZONE", "DOUBLE", "SMALLINT", "HUGEINT", "SERIAL", "MONEY", "XML", "INET", "TSRANGE", "VECTOR(3)"]
    out = []
    for fam, items in ex.items():
        for i, e in enumerate(items):
            out.append((f"SELECT {e} FROM t", (f"form.{fam}.{i}",)))
            out.append((f"SELECT NOT {e}, CAST({e} AS TEXT), ({e}) IS NULL FROM t WHERE {e} GROUP BY {e} ORDER BY {e}", (f"form.{fam}.{i}", "form.in_contexts")))
    for i, ty in enumerate(types):
        for j, tmpl in enumerate(("SELECT CAST(a AS {t}) FROM t", "SELECT a::{t} FROM t", "SELECT TRY_CAST(a AS {t}) FROM t", "CREATE TABLE t (a {t})", "SELECT CAST(a AS {t}) + 1, CAST(CAST(a AS {t}) AS TEXT) FROM t")):
            out.append((tmpl.format(t=ty), (f"type.{i}",)))
    tabs = ["WITH c AS MATERIALIZED (SELECT 1 AS a) SELECT * FROM c", "WITH c AS NOT MATERIALIZED (SELECT 1 AS a) SELECT * FROM c", "WITH RECURSIVE c(n) AS (SELECT 1 UNION ALL SELECT n + 1 FROM c WHERE n < 3) SELECT * FROM c",
            "WITH RECURSIVE c AS (SELECT 1 AS n UNION ALL SELECT n + 1 FROM c) SELECT n FROM c LIMIT 3", "WITH a AS (SELECT 1), b AS (SELECT * FROM a) SELECT * FROM b", "VALUES (1, 2), (3, 4)", "SELECT * FROM (VALUES (1)) AS v(a)",
            "SELECT * FROM t /*+ hint */", "SELECT /*+ BROADCAST(t) */ a FROM t", "SELECT TOP 3 a FROM t", "SELECT a FROM t FETCH FIRST 3 ROWS ONLY", "SELECT a FROM t LIMIT 3, 2", "SELECT a FROM t LIMIT ALL", "SELECT a FROM t OFFSET 2 ROWS",
            "SELECT a FROM t ORDER BY a NULLS FIRST, b DESC NULLS LAST", "SELECT a FROM t ORDER BY a COLLATE \"C\"", "SELECT a FROM t ORDER BY 1 USING <", "SELECT DISTINCT ON (a) a, b FROM t", "SELECT ALL a FROM t", "SELECT a AS \"x y\", b \"q\" FROM t",
            "SELECT t.* EXCLUDE (a) FROM t", "SELECT * REPLACE (a + 1 AS a) FROM t", "SELECT * EXCEPT (a) FROM t", "SELECT COLUMNS('a.*') FROM t", "SELECT a FROM t WHERE a = 1 FOR UPDATE OF t NOWAIT", "SELECT a FROM t FOR SHARE SKIP LOCKED",
            "SELECT a INTO u FROM t", "SELECT a FROM t GROUP BY a WITH TOTALS", "SELECT a FROM t SETTINGS max_threads = 1", "SELECT a FROM t FINAL", "SELECT a FROM t AS OF TIMESTAMP '2020-01-01'", "SELECT a FROM ONLY t", "SELECT a FROM t PARTITION (p1)",
            "SELECT a FROM t USE INDEX (i)", "SELECT a FROM t WITH (NOLOCK)", "SELECT a FROM t@snap", "TABLE t", "FROM t SELECT a", "SELECT a FROM t WHERE a IN (SELECT a FROM u) AND EXISTS (SELECT 1 FROM v WHERE v.a = t.a)",
            "EXPLAIN SELECT 1", "DESCRIBE t", "SHOW TABLES", "USE db", "SET x = 1", "TRUNCATE TABLE t", "COMMENT ON TABLE t IS 'c'", "GRANT SELECT ON t TO u", "BEGIN", "COMMIT", "ROLLBACK", "ANALYZE t", "VACUUM t", "CALL p(1)",
            "CREATE SCHEMA IF NOT EXISTS s", "CREATE SEQUENCE s START WITH 1 INCREMENT BY 2", "CREATE FUNCTION f(a INT) RETURNS INT AS 'SELECT 1'", "CREATE TABLE t (a INT) PARTITION BY RANGE (a)", "CREATE TABLE t (a INT, b INT GENERATED ALWAYS AS (a + 1) STORED)",
            "CREATE TABLE t (a INT DEFAULT 1 NOT NULL CHECK (a > 0), PRIMARY KEY (a))", "CREATE TABLE t (a INT) WITH (x = 1)", "CREATE TABLE t (a INT) COMMENT = 'c'", "CREATE TEMPORARY VIEW v AS SELECT 1", "CREATE MATERIALIZED VIEW v AS SELECT 1",
            "CREATE OR REPLACE TABLE t AS SELECT 1 AS a", "CREATE TABLE t AS SELECT 1 AS a WITH NO DATA", "CREATE UNLOGGED TABLE t (a INT)", "CREATE EXTERNAL TABLE t (a INT) LOCATION 's3://x'", "CREATE TABLE t (a INT) ENGINE = MergeTree ORDER BY a",
            "CREATE TABLE t (a INT COLLATE \"C\")", "CREATE TABLE t (a INT REFERENCES u (a) ON DELETE CASCADE)", "CREATE TABLE t (a INT, UNIQUE (a), CHECK (a > 0))", "CREATE TABLE IF NOT EXISTS s.t (LIKE u INCLUDING ALL)"]
    for i, q in enumerate(tabs):
        out.append((q, (f"stmt.{i}",)))
    return out


def _hier():
    """Hierarchical queries: START WITH / CONNECT BY in both orders, PRIOR on either side / twice / over a parenthesis / next
    to a subquery, a CONNECT BY nested inside the condition of another one, inside derived tables / CTEs / set operands, and the
    word `prior` as an ordinary identifier before, after and beside them (PRIOR is an operator only inside CONNECT BY)."""
    out = []
    conds = [("PRIOR a = b", "prior_left"), ("a = PRIOR b", "prior_right"), ("PRIOR a = b AND PRIOR c = d", "two_priors"), ("NOCYCLE PRIOR a = b", "nocycle"), ("a = b", "no_prior"),
             ("PRIOR a = (SELECT MAX(b) FROM u)", "subquery"), ("PRIOR a = (SELECT b FROM u START WITH b = 1 CONNECT BY PRIOR b = c) AND PRIOR d = e", "nested_connect"),
             ("PRIOR a = (SELECT b FROM u CONNECT BY PRIOR b = c)", "nested_connect_last"), ("PRIOR (a + 1) = b", "prior_paren"), ("PRIOR a + 1 = b", "prior_arith"),
             ("PRIOR a = b OR a IN (SELECT prior FROM u)", "prior_ident_in_subquery")]
    heads = [("SELECT a FROM t", "plain"), ("SELECT a, LEVEL, CONNECT_BY_ROOT a AS r FROM t", "level_root"), ("SELECT prior, a FROM t", "prior_ident"), ("SELECT a FROM t WHERE a > 1", "where")]
    tails = [("", ()), (" ORDER BY a", ("hier.order",)), (" ORDER SIBLINGS BY a", ("hier.siblings",)), (" GROUP BY a", ("hier.group",))]
    qs = []
    for c, ct in conds:
        for h, ht in heads:
            for form, ft in ((f"{h} START WITH a IS NULL CONNECT BY {c}", "start_connect"), (f"{h} CONNECT BY {c} START WITH a IS NULL", "connect_start"), (f"{h} CONNECT BY {c}", "connect")):
                for tl, tt in tails:
                    if tl and (ht != "plain" or ft != "start_connect"):
                        continue
                    qs.append((form + tl, (f"hier.{ct}", f"hier.{ht}", f"hier.{ft}") + tt))
    out.extend(qs)
    for q, tags in qs:
        if tags[1] == "hier.plain" and tags[2] == "hier.start_connect" and len(tags) == 3:
            out.append((f"SELECT * FROM ({q}) AS s", tags + ("hier.in_derived",)))
            out.append((f"WITH c AS ({q}) SELECT prior FROM c", tags + ("hier.in_cte_then_prior_ident",)))
            out.append((f"{q} UNION ALL SELECT prior FROM u", tags + ("hier.union_prior_ident",)))
            out.append((f"SELECT prior, (SELECT MAX(a) FROM ({q}) AS s) AS m FROM u", tags + ("hier.scalar_after_prior_ident",)))
            out.append((f"SELECT a FROM t; {q}; SELECT prior FROM t", tags + ("hier.script",)))
    return out


@functools.lru_cache(None)
def clause_statements() -> tuple:
    """(sql, tags) for every statement of the clause-subset spaces (written in the common SQL spelling; each dialect parses what
    it can - statements a dialect rejects are outside its space)."""
    seen, out = set(), []
    for gen in (_select, _dml, _ddl, _setops, _windows, _joins, _forms, _hier):
        for sql, tags in gen():
            if sql not in seen:
                seen.add(sql)
                out.append((sql, tuple(tags)))
    return tuple(out)
