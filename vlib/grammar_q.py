"""G_q - the SQLite/DuckDB common fragment over t(a INT, b INT, s TEXT, ts TIMESTAMP), u(b INT, c INT).

Engine-semantics differences that no transpiler could bridge are kept OUT of the grammar, each with its
reason: integer overflow (no large literals); division / modulo by zero (divisors are non-zero literals);
text<->number comparisons and casts of non-numeric text (type affinity); float formatting (no float
literals, AVG compared numerically); SUBSTR with non-positive start (engine-defined)."""
from __future__ import annotations

import functools

from vlib.denum import A, Grammar

SCHEMA = {"t": {"a": "INT", "b": "INT", "s": "TEXT", "ts": "TIMESTAMP"}, "u": {"b": "INT", "c": "INT"}}
CMPS = [("eq", "="), ("neq", "<>"), ("lt", "<"), ("lte", "<="), ("gt", ">"), ("gte", ">=")]
FMTS = ["%Y", "%m", "%d", "%H", "%M", "%S", "%j", "%Y-%m-%d", "%H:%M:%S", "%Y%m%d %H"]


@functools.lru_cache(None)
def q_grammar(side: str) -> Grammar:
    """side: 'sqlite' or 'duckdb' (source dialect: decides the native spellings offered)."""
    ileaf = [A("col.a", 0, "a"), A("lit.1", 0, "1"), A("col.b", 1, "b"), A("lit.2", 1, "2"), A("lit.null", 1, "NULL"),
             A("lit.3", 1, "3"), A("lit.neg", 1, "-1")]
    arith = [
        A("add", 1, "{io} + {io}"), A("sub", 1, "{io} - {io}"), A("mul", 1, "{io} * {io}"),
        A("div", 1, "{io} / 2"), A("div_by_col_lit", 1, "7 / {io2}"), A("mod", 1, "{io} % 2"), A("neg", 1, "-{io}"),
        A("mixed1", 2, "{io} - {io} - {io}"), A("mixed2", 2, "{io} - ({io} - {io})"), A("mixed3", 2, "{io} * {io} + {io}"),
        A("mixed4", 2, "{io} * ({io} + {io})"), A("mixed5", 2, "{io} / 2 * 2"), A("mixed6", 2, "{io} / (2 * 2)"),
        A("mixed7", 2, "-{io} - -{io}"), A("mixed8", 2, "{io} % 2 * 3"),
        # chains of divisions (a generator that treats the operands of a flattened left-deep chain differently from a single division)
        A("div_chain", 1, "{io} / 2 / 2"), A("div_chain3", 1, "{io} / 2 / 3 / 2"), A("div_mul_div", 1, "{io} / 2 * 3 / 2"), A("div_paren_chain", 1, "({io} / 2) / 2"),
        A("div_right", 1, "{io} / (4 / 2)"), A("mod_div", 1, "{io} % 3 / 2"), A("lit_div_chain", 1, "7 / {io2} / 2"), A("add_div_chain", 1, "({io} + 1) / 2 / 2"),
    ]
    ifun = [
        A("case", 1, "CASE WHEN {c} THEN {i} ELSE {i} END"), A("case_noelse", 1, "CASE WHEN {c} THEN {i} END"),
        A("case_simple", 1, "CASE {i} WHEN 1 THEN 10 WHEN 2 THEN 20 END"),
        A("coalesce", 1, "COALESCE({i}, {i})"), A("nullif", 1, "NULLIF({i}, {i})"), A("ifnull", 1, "IFNULL({i}, 0)"),
        A("abs", 1, "ABS({i})"), A("length", 1, "LENGTH({x})"), A("cast_text_int", 1, "CAST(CAST({i} AS TEXT) AS INT)"),
        A("min2", 1, "MIN({i}, {i})") if side == "sqlite" else A("least", 1, "LEAST({i}, {i})"),
        A("iif", 1, "IIF({c}, {i}, {i})") if side == "sqlite" else A("if", 1, "IF({c}, {i}, {i})"),
    ]
    xleaf = [A("col.s", 0, "s"), A("lit.str", 0, "'a'"), A("lit.str_empty", 1, "''"), A("lit.str_q", 1, "'it''s'"), A("lit.xnull", 1, "NULL"),
             A("lit.str_pct", 1, "'%a_'")]
    xfun = [
        A("dpipe", 1, "{xo} || {xo}"), A("dpipe3", 2, "{xo} || {xo} || {xo}"), A("dpipe_int", 1, "{xo} || CAST({i} AS TEXT)"),
        A("upper", 1, "UPPER({x})"), A("lower", 1, "LOWER({x})"), A("substr", 1, "SUBSTR({x}, 1, 2)"), A("substr2", 1, "SUBSTR({x}, 2)"),
        A("xcoalesce", 1, "COALESCE({x}, 'z')"), A("xcase", 1, "CASE WHEN {c} THEN {x} ELSE 'e' END"), A("cast_int_text", 1, "CAST({i} AS TEXT)"),
        A("trim", 1, "TRIM({x})"), A("replace", 1, "REPLACE({x}, 'a', 'b')"),
        A("strftime", 1, "STRFTIME({fmt}, ts)" if side == "sqlite" else "STRFTIME(ts, {fmt})"),
        A("xnullif", 1, "NULLIF({x}, 'a')"),
    ]
    cond = [A("c.default", 0, "a = 1")]
    cond += [A(f"cmp.{t}", 1, "{io} %s {io}" % op) for t, op in CMPS]
    cond += [A(f"xcmp.{t}", 1, "{xo} %s {xo}" % op) for t, op in CMPS[:3]]
    cond += [
        A("in", 1, "{io} IN (1, 2)"), A("in_null", 1, "{io} IN (1, NULL)"), A("not_in_null", 1, "{io} NOT IN (1, NULL)"),
        A("between", 1, "{io} BETWEEN 1 AND 2"), A("is_null", 1, "{io} IS NULL"), A("is_not_null", 1, "{xo} IS NOT NULL"),
        A("like", 1, "{xo} LIKE 'a%'"), A("not_like", 1, "{xo} NOT LIKE '%B'"),
        A("and", 1, "{co} AND {co}"), A("or", 1, "{co} OR {co}"), A("not", 1, "NOT {co}"),
        A("and_or", 2, "{co} AND {co} OR {co}"), A("or_and", 2, "{co} OR {co} AND {co}"), A("not_and", 2, "NOT {co} AND {co}"),
        A("cmp_arith", 2, "{io} + 1 > {io} * 2"), A("is_true", 1, "({c}) IS TRUE") if side == "duckdb" else A("is_1", 1, "({c}) IS 1"),
    ]
    conn = [a for a in cond if a.tag in ("and", "or", "not")]
    order = [
        A("order.none", 0, ""), A("order.asc", 1, " ORDER BY 1, 2"), A("order.desc", 1, " ORDER BY 1 DESC, 2 DESC"),
        A("order.nf", 1, " ORDER BY 1 NULLS FIRST, 2 NULLS FIRST"), A("order.nl", 1, " ORDER BY 1 NULLS LAST, 2 NULLS LAST"),
        A("order.desc_nf", 1, " ORDER BY 1 DESC NULLS FIRST, 2 DESC NULLS FIRST"), A("order.desc_nl", 1, " ORDER BY 1 DESC NULLS LAST, 2 DESC NULLS LAST"),
        A("order.mixed", 1, " ORDER BY 1 DESC, 2 NULLS FIRST"),
        A("order.limit", 1, " ORDER BY 1, 2 LIMIT 2"), A("order.limit_offset", 1, " ORDER BY 1 DESC, 2 LIMIT 2 OFFSET 1"),
        A("order.offset_desc_nl", 1, " ORDER BY 1 DESC NULLS LAST, 2 LIMIT 3 OFFSET 1"),
        # (an ORDER BY expression over a non-output column is kept out: SQLite accepts bare non-grouped columns there, DuckDB does not)
        A("order.name", 1, " ORDER BY c1, c2"),
    ]
    # ORDER BY keys that are expressions (only where every column is in scope: plain single-table selects); the
    # trailing ordinals 1, 2 make the order total, so whole sequences are compared
    order_s = order + [
        # (constant keys are kept out: DuckDB rejects non-integer literals in ORDER BY and reads integers as ordinals)
        A("order.key_int", 1, " ORDER BY {ki}, 1, 2"), A("order.key_int_desc", 1, " ORDER BY {ki} DESC, 1, 2"),
        A("order.key_text", 1, " ORDER BY {kx}, 1, 2"), A("order.key_cond", 1, " ORDER BY {c}, 1, 2"),
        A("order.key_int_limit", 1, " ORDER BY {ki}, 1, 2 LIMIT 2"), A("order.key_text_desc_limit", 1, " ORDER BY {kx} DESC, 1, 2 LIMIT 3 OFFSET 1"),
        A("order.key_int_nf", 1, " ORDER BY {ki} NULLS FIRST, 1, 2"), A("order.key_int_desc_nl", 1, " ORDER BY {ki} DESC NULLS LAST, 1, 2"),
    ]
    q = [
        A("scan", 0, "SELECT a AS c1, b AS c2 FROM t{order_s}"),
        A("proj_int", 1, "SELECT {i} AS c1, b AS c2 FROM t{order_s}"),
        A("proj_text", 1, "SELECT {x} AS c1, a AS c2 FROM t{order_s}"),
        A("proj_cond", 1, "SELECT a AS c1, {c} AS c2 FROM t{order_s}"),
        A("filter", 1, "SELECT a AS c1, s AS c2 FROM t WHERE {c}{order_s}"),
        A("distinct", 1, "SELECT DISTINCT {i} AS c1, s AS c2 FROM t{order}"),
        A("group", 1, "SELECT a AS c1, {agg} AS c2 FROM t GROUP BY a{order}"),
        A("group_text", 1, "SELECT s AS c1, {agg} AS c2 FROM t GROUP BY s{order}"),
        A("agg_all", 1, "SELECT {agg} AS c1, COUNT(*) AS c2 FROM t"),
        A("having", 1, "SELECT a AS c1, COUNT(*) AS c2 FROM t GROUP BY a HAVING {agg} > 1{order}"),
        A("join", 1, "SELECT t.a AS c1, u.c AS c2 FROM t {jk} u ON {on}{order}"),
        A("join_cross", 1, "SELECT t.a AS c1, u.c AS c2 FROM t CROSS JOIN u{order}"),
        A("join_comma", 1, "SELECT t.a AS c1, u.c AS c2 FROM t, u WHERE t.b = u.b{order}"),
        A("union", 1, "SELECT a AS c1, b AS c2 FROM t UNION SELECT b, c FROM u{order}"),
        A("union_all", 1, "SELECT a AS c1, b AS c2 FROM t UNION ALL SELECT b, c FROM u{order}"),
        A("intersect", 1, "SELECT a AS c1, b AS c2 FROM t INTERSECT SELECT b, c FROM u{order}"),
        A("except", 1, "SELECT a AS c1, b AS c2 FROM t EXCEPT SELECT b, c FROM u{order}"),
        A("in_sub", 1, "SELECT a AS c1, b AS c2 FROM t WHERE b IN (SELECT b FROM u){order}"),
        A("not_in_sub", 1, "SELECT a AS c1, b AS c2 FROM t WHERE b NOT IN (SELECT b FROM u){order}"),
        A("exists", 1, "SELECT a AS c1, b AS c2 FROM t WHERE EXISTS (SELECT 1 FROM u WHERE u.b = t.b){order}"),
        A("scalar", 1, "SELECT a AS c1, (SELECT MAX(c) FROM u WHERE u.b = t.b) AS c2 FROM t{order}"),
        A("cte", 1, "WITH q AS (SELECT a, b FROM t WHERE {c}) SELECT a AS c1, b AS c2 FROM q{order}"),
        A("derived", 1, "SELECT d.a AS c1, d.n AS c2 FROM (SELECT a, COUNT(*) AS n FROM t GROUP BY a) AS d{order}"),
        A("win", 1, "SELECT a AS c1, ROW_NUMBER() OVER (PARTITION BY a ORDER BY b, s, ts) AS c2 FROM t{order}"),
        A("win_sum", 1, "SELECT a AS c1, SUM(b) OVER (PARTITION BY a) AS c2 FROM t{order}"),
    ]
    if side == "duckdb":
        q += [
            A("qualify", 1, "SELECT a AS c1, b AS c2 FROM t QUALIFY ROW_NUMBER() OVER (PARTITION BY a ORDER BY b, s, ts) = 1{order}"),
            # QUALIFY over two window functions / a window that is also projected / a window next to a plain predicate
            A("qualify2", 1, "SELECT a AS c1, b AS c2 FROM t QUALIFY ROW_NUMBER() OVER (PARTITION BY a ORDER BY b, s, ts) = 1 AND RANK() OVER (ORDER BY a) <= 2{order}"),
            A("qualify2_or", 1, "SELECT a AS c1, b AS c2 FROM t QUALIFY ROW_NUMBER() OVER (PARTITION BY a ORDER BY b, s, ts) = 1 OR COUNT(*) OVER (PARTITION BY b) > 1{order}"),
            A("qualify_projected", 1, "SELECT a AS c1, ROW_NUMBER() OVER (PARTITION BY a ORDER BY b, s, ts) AS c2 FROM t QUALIFY c2 = 1 AND SUM(b) OVER (PARTITION BY a) > 0{order}"),
            A("qualify_and_plain", 1, "SELECT a AS c1, b AS c2 FROM t WHERE {c} QUALIFY ROW_NUMBER() OVER (PARTITION BY a ORDER BY b, s, ts) <= 2 AND b > 0{order}"),
            A("distinct_on", 1, "SELECT DISTINCT ON (a) a AS c1, b AS c2 FROM t ORDER BY a, b, s, ts"),
            A("semi", 1, "SELECT t.a AS c1, t.b AS c2 FROM t SEMI JOIN u ON {on}{order}"),
            A("anti", 1, "SELECT t.a AS c1, t.b AS c2 FROM t ANTI JOIN u ON {on}{order}"),
            A("offset_only", 1, "SELECT a AS c1, b AS c2 FROM t ORDER BY 1, 2 OFFSET 1"),
        ]
    agg = [A("count", 0, "COUNT(b)"), A("sum", 1, "SUM(b)"), A("min", 1, "MIN(b)"), A("max", 1, "MAX(b)"), A("avg", 1, "AVG(b)"),
           A("count_distinct", 1, "COUNT(DISTINCT b)"), A("sum_expr", 1, "SUM({i})"), A("total", 1, "COUNT(*)"),
           A("group_concat", 1, "COUNT(s)"),
           # arithmetic over aggregates (integer vs. fractional division, modulo, mixed aggregates)
           A("agg.div_const", 1, "SUM(b) / 2"), A("agg.div_count", 1, "SUM(b) / COUNT(*)"), A("agg.avg_div", 1, "AVG(b) / 2"), A("agg.count_div", 1, "COUNT(b) / 2"),
           A("agg.mod", 1, "SUM(b) % 2"), A("agg.range", 1, "MAX(b) - MIN(b)"), A("agg.div_paren", 1, "(SUM(b) + 1) / 2"), A("agg.const_div", 1, "3 / COUNT(b)"),
           A("agg.neg_div", 1, "-SUM(b) / 2")]
    jk = [A("inner", 0, "JOIN"), A("left", 1, "LEFT JOIN"), A("right", 1, "RIGHT JOIN"), A("full", 1, "FULL JOIN")]
    # join conditions: the plain equi-join, plus conjuncts over one side only (NULL-sensitive when a rewrite moves them),
    # a residual inequality, a disjunction and a pure inequality
    on = [A("on.eq", 0, "t.b = u.b"), A("on.left_conj", 1, "t.b = u.b AND t.a > 0"), A("on.right_conj", 1, "t.b = u.b AND u.c > 0"),
          A("on.residual", 1, "t.b = u.b AND t.a < u.c"), A("on.or", 1, "t.b = u.b OR t.a = u.c"), A("on.lt", 1, "t.b < u.b"),
          A("on.left_only", 1, "t.a > 0"), A("on.not_left", 1, "t.b = u.b AND NOT t.a > 0")]
    fmt = [A(f"fmt.{i}", 0, "'%s'" % f) for i, f in enumerate(FMTS)]
    rules = {
        "i": ileaf + arith + ifun, "io": ileaf + ifun + [A("wrap", 0, "({ia})")], "ia": arith, "io2": [A("two", 0, "2"), A("three", 0, "3"), A("negtwo", 1, "-2")],
        "x": xleaf + xfun, "xo": xleaf + [f for f in xfun if f.tag not in ("dpipe", "dpipe3", "dpipe_int")] + [A("xwrap", 0, "({xa})")],
        "xa": [f for f in xfun if f.tag in ("dpipe", "dpipe_int")],
        "c": cond, "co": [c for c in cond if c.tag not in ("and", "or", "not", "and_or", "or_and", "not_and")] + [A("cwrap", 0, "({cc})")], "cc": conn,
        "q": q, "agg": agg, "jk": jk, "on": on, "order": order, "order_s": order_s, "fmt": fmt,
        "ki": [A("k.a", 0, "a"), A("k.b", 1, "b")] + arith + ifun, "kx": [A("k.s", 0, "s")] + xfun,
    }
    return Grammar(rules, depth_nts=("i", "io", "ia", "x", "xo", "xa", "c", "co", "cc"))


@functools.lru_cache(None)
def queries(side: str, k: int, depth: int = 5) -> tuple:
    return q_grammar(side).enumerate("q", k, depth)
