"""G_core - the tagged core SQL grammar (start symbols: stmt, expr, cond), built per dialect by
introspecting the dialect's tokenizer (quote characters, literal prefixes) and parser (time-format
function spellings)."""
from __future__ import annotations

import functools

from sqlglot import exp
from sqlglot.dialects.dialect import Dialect

from vlib.denum import A, Grammar

BIN_OPS = [
    ("or", "OR"), ("and", "AND"), ("eq", "="), ("neq", "<>"), ("lt", "<"), ("lte", "<="), ("gt", ">"), ("gte", ">="),
    ("dpipe", "||"), ("add", "+"), ("sub", "-"), ("mul", "*"), ("div", "/"), ("mod", "%"),
    ("bitand", "&"), ("bitor", "|"), ("bitxor", "^"), ("lshift", "<<"), ("rshift", ">>"),
]
TYPES = ["INT", "BIGINT", "DECIMAL(10, 2)", "VARCHAR(10)", "DATE", "TIMESTAMP", "TEXT", "DOUBLE", "BOOLEAN"]
TIME_FORMATS = ["%Y-%m-%d", "%H:%M:%S", "%d/%m/%y %I%p", "%j %b %a"]


def delims(dialect: str):
    d = Dialect.get_or_raise(dialect or None)
    T = d.tokenizer_class
    q = T.QUOTES[0]
    q = q if isinstance(q, str) else q[0]
    i = T.IDENTIFIERS[0]
    istart, iend = (i, i) if isinstance(i, str) else i
    return d, T, q, istart, iend


def time_function_spellings(dialect: str) -> list[tuple[str, str]]:
    """(tag, function name) for every native spelling whose parser builder yields a time-format node."""
    d = Dialect.get_or_raise(dialect or None)
    out = []
    targets = (exp.StrToTime, exp.TimeToStr, exp.StrToDate, exp.StrToUnix, exp.TsOrDsToDate)
    # a spelling is native when its builder converts the format through TIME_MAPPING: probe with a key
    # whose mapped value differs from the key itself
    probe = next((k for k in sorted(d.TIME_MAPPING) if d.TIME_MAPPING[k] != k and "'" not in k), None)
    identity = probe is None
    if identity:
        probe = "%Y"
    q = d.tokenizer_class.QUOTES[0]
    q = q if isinstance(q, str) else q[0]
    for name in sorted(d.parser_class.FUNCTIONS):
        if not name.replace("_", "").isalnum():
            continue
        for order, template in (("", "{name}(a, {fmt})"), (".fmtfirst", "{name}({fmt}, a)")):
            sql = "SELECT " + template.format(name=name, fmt=f"{q}{probe}{q}")
            try:
                tree = d.parse(sql)[0]
            except Exception:
                continue
            if tree is None:
                continue
            node = tree.find(*targets)
            if node is not None and isinstance(node.args.get("format"), exp.Literal) \
                    and node.args["format"].this == d.TIME_MAPPING.get(probe, probe):
                out.append((f"timefn.{name.lower()}{order}", template.replace("{name}", name)))
                break
    return out


@functools.lru_cache(None)
def core_grammar(dialect: str = "", comments: bool = False, time_formats: bool = True) -> Grammar:
    d, T, q, istart, iend = delims(dialect)

    def s(text: str) -> str:  # a string literal in this dialect's first quote style
        return q + text.replace(q, q + q) + q

    def ident(text: str) -> str:
        return istart + text + iend

    expr = [
        A("col.a", 0, "a"),
        A("lit.1", 0, "1"),
        A("col.b", 1, "b"),
        A("col.qualified", 1, "t.a"),
        A("col.quoted", 1, ident("Q q")),
        A("col.quoted_qualified", 1, "t." + ident("a")),
        A("lit.decimal", 1, "1.5"),
        A("lit.sci", 1, "1e5"),
        A("lit.str", 1, s("s")),
        A("lit.str_quote", 1, s("it" + q + "s")),
        A("lit.str_empty", 1, s("")),
        A("lit.null", 1, "NULL"),
        A("lit.true", 1, "TRUE"),
        A("lit.false", 1, "FALSE"),
        A("lit.placeholder", 1, "?"),
        A("lit.param", 1, ":p"),
        A("lit.star_count", 1, "COUNT(*)"),
        A("un.neg", 1, "-{expr}"),
        A("un.not", 1, "NOT {expr}"),
        A("un.bitnot", 1, "~{expr}"),
        A("paren", 1, "({expr})"),
    ]
    # every literal prefix the tokenizer declares
    fmt = getattr(T, "_FORMAT_STRINGS", {})
    seen_kinds = set()
    for start, (end, tt) in sorted(fmt.items()):
        kind = tt.name.lower()
        if (kind, start.lower()) in seen_kinds:
            continue
        seen_kinds.add((kind, start.lower()))
        body = {"hex_string": "1F", "bit_string": "101", "heredoc_string": "txt"}.get(kind, "ab")
        if kind == "heredoc_string":
            text = f"{start}{start}{body}{end}{end}" if len(start) == 1 else f"{start}{body}{end}"
        else:
            text = f"{start}{body}{end}"
        expr.append(A(f"lit.{kind}.{start.lower()}", 1, text))
    for tag, op in BIN_OPS:
        expr.append(A(f"bin.{tag}", 1, "{expr} " + op + " {expr}"))
        expr.append(A(f"bin.{tag}.rparen", 1, "{expr} " + op + " ({expr})"))
        expr.append(A(f"bin.{tag}.lparen", 1, "({expr}) " + op + " {expr}"))
    expr += [
        A("pred.is_null", 1, "{expr} IS NULL"),
        A("pred.is_not_null", 1, "{expr} IS NOT NULL"),
        A("pred.is_true", 1, "{expr} IS TRUE"),
        A("pred.like", 1, "{expr} LIKE " + s("x%")),
        A("pred.not_like", 1, "{expr} NOT LIKE " + s("x%")),
        A("pred.ilike", 1, "{expr} ILIKE " + s("x%")),
        A("pred.like_escape", 1, "{expr} LIKE " + s("x!%") + " ESCAPE " + s("!")),
        A("pred.between", 1, "{expr} BETWEEN {expr} AND {expr}"),
        A("pred.not_between", 1, "{expr} NOT BETWEEN {expr} AND {expr}"),
        A("pred.in_list", 1, "{expr} IN ({expr}, {expr})"),
        A("pred.not_in_list", 1, "{expr} NOT IN ({expr}, {expr})"),
        A("pred.in_subquery", 1, "{expr} IN ({query})"),
        A("pred.exists", 1, "EXISTS({query})"),
        A("pred.any", 1, "{expr} = ANY({query})"),
        A("pred.is_distinct", 1, "{expr} IS DISTINCT FROM {expr}"),
        A("case.searched", 1, "CASE WHEN {expr} THEN {expr} END"),
        A("case.searched_else", 1, "CASE WHEN {expr} THEN {expr} ELSE {expr} END"),
        A("case.simple", 1, "CASE {expr} WHEN {expr} THEN {expr} ELSE {expr} END"),
        A("case.two_whens", 1, "CASE WHEN {expr} THEN {expr} WHEN {expr} THEN {expr} END"),
        A("fn.if", 1, "IF({expr}, {expr}, {expr})"),
        A("fn.coalesce", 1, "COALESCE({expr}, {expr})"),
        A("fn.nullif", 1, "NULLIF({expr}, {expr})"),
        A("fn.abs", 1, "ABS({expr})"),
        A("fn.anon", 1, "MY_FUNC({expr}, {expr})"),
        A("fn.anon0", 1, "MY_FUNC()"),
        A("fn.lower", 1, "LOWER({expr})"),
        A("fn.concat", 1, "CONCAT({expr}, {expr})"),
        A("fn.substring", 1, "SUBSTRING({expr}, 1, 2)"),
        A("fn.greatest", 1, "GREATEST({expr}, {expr})"),
        A("fn.round", 1, "ROUND({expr}, 2)"),
        A("agg.sum", 1, "SUM({expr})"),
        A("agg.count_distinct", 1, "COUNT(DISTINCT {expr})"),
        A("agg.max", 1, "MAX({expr})"),
        A("agg.filter", 1, "SUM({expr}) FILTER(WHERE {expr})"),
        A("agg.order", 1, "ARRAY_AGG({expr} ORDER BY {expr})"),
        A("win.partition", 1, "SUM({expr}) OVER (PARTITION BY {expr})"),
        A("win.order", 1, "SUM({expr}) OVER (ORDER BY {expr})"),
        A("win.order_desc", 1, "ROW_NUMBER() OVER (ORDER BY {expr} DESC)"),
        A("win.rows", 1, "SUM({expr}) OVER (PARTITION BY {expr} ORDER BY {expr} ROWS BETWEEN UNBOUNDED PRECEDING AND CURRENT ROW)"),
        A("win.range", 1, "SUM({expr}) OVER (ORDER BY {expr} RANGE BETWEEN 1 PRECEDING AND 1 FOLLOWING)"),
        A("win.named", 1, "SUM({expr}) OVER w"),
        A("sub.scalar", 1, "({query})"),
        A("fn.extract", 1, "EXTRACT(YEAR FROM {expr})"),
        A("lit.interval", 1, "INTERVAL " + s("1") + " DAY"),
        A("lit.date", 1, "DATE " + s("2020-01-02")),
        A("lit.timestamp", 1, "TIMESTAMP " + s("2020-01-02 03:04:05")),
        A("acc.bracket", 1, "{expr}[1]"),
        A("acc.dot", 1, "{expr}.f"),
        A("fn.current_date", 1, "CURRENT_DATE"),
        # syntactic forms with keyword-introduced parts (their single-token mutants leave optional parts empty)
        A("cast.format", 1, "CAST({expr} AS DATE FORMAT " + s("YYYY-MM-DD") + ")"),
        A("fn.trim_from", 1, "TRIM(BOTH " + s("x") + " FROM {expr})"),
        A("fn.position", 1, "POSITION({expr} IN {expr})"),
        A("fn.substring_from", 1, "SUBSTRING({expr} FROM 1 FOR 2)"),
        A("pred.like_any", 1, "{expr} LIKE ANY (" + s("a") + ", " + s("b") + ")"),
        A("acc.json_arrow", 1, "{expr} -> " + s("k")),
        A("fn.at_time_zone", 1, "{expr} AT TIME ZONE " + s("UTC")),
        A("agg.within_group", 1, "PERCENTILE_CONT(0.5) WITHIN GROUP (ORDER BY {expr})"),
        A("lit.array", 1, "ARRAY[{expr}, {expr}]"),
        A("win.ignore_nulls", 1, "FIRST_VALUE({expr} IGNORE NULLS) OVER (ORDER BY {expr})"),
        A("fn.overlay", 1, "OVERLAY({expr} PLACING " + s("x") + " FROM 1 FOR 2)"),
        A("pred.similar", 1, "{expr} SIMILAR TO " + s("x")),
        A("col.quoted_backslash", 1, ident("a\\b")),
        A("lit.str_backslash", 1, s("a\\b")),
    ]
    for ty in TYPES:
        tg = ty.split("(")[0].lower()
        expr.append(A(f"cast.{tg}", 1, "CAST({expr} AS " + ty + ")"))
    expr.append(A("cast.try", 1, "TRY_CAST({expr} AS INT)"))
    expr.append(A("cast.dcolon", 1, "{expr}::INT"))
    expr.append(A("cast.array", 1, "CAST({expr} AS ARRAY<INT>)"))
    # generic function names take portable python-style formats; native spellings take this dialect's
    # own directives (every TIME_MAPPING key alone plus two combinations) - both are free leaf menus, so
    # each time function meets each directive at k=1
    native_fns = time_function_spellings(dialect) if dialect else []
    if time_formats:
        for tag, fn in [("timefn.str_to_time", "STR_TO_TIME"), ("timefn.time_to_str", "TIME_TO_STR"),
                        ("timefn.str_to_date", "STR_TO_DATE")]:
            if not any(n.startswith(fn + "(") for _, n in native_fns):
                expr.append(A(tag, 1, fn + "({expr}, {timefmt})"))
        for tag, template in native_fns:
            expr.append(A(tag, 1, template.replace("a", "{expr}", 1).replace("{fmt}", "{ntimefmt}") if "(a," in template
                          else template.replace(", a)", ", {expr})").replace("{fmt}", "{ntimefmt}")))
    py = ["%Y", "%m", "%d", "%H", "%M", "%S", "%f", "%j", "%y", "%b", "%B", "%a", "%p", "%I", "%z", "%%"]
    timefmt = [A(f"tfmt.{i}", 0, s(f)) for i, f in enumerate(list(TIME_FORMATS) + ([] if dialect else py))]
    native = [k for k in sorted(d.TIME_MAPPING) if q not in k] if dialect else []
    nf = list(native)
    if len(native) >= 3:
        nf += [f"{native[0]}-{native[1]}", f"{native[2]}{native[0]}"]
    ntimefmt = [A(f"ntfmt.{i}", 0, s(f)) for i, f in enumerate(dict.fromkeys(nf or TIME_FORMATS))]

    proj = [
        A("proj.expr", 0, "{expr}"),
        A("proj.alias", 1, "{expr} AS x"),
        A("proj.alias_quoted", 1, "{expr} AS " + ident("X y")),
        A("proj.two", 1, "{expr}, {expr}"),
        A("proj.star", 1, "*"),
        A("proj.tstar", 1, "t.*"),
        A("proj.alias_two", 1, "{expr} AS x, {expr} AS y"),
    ]
    distinct = [A("distinct.none", 0, ""), A("distinct", 1, "DISTINCT ")]
    frm = [
        A("from.t", 0, "t"),
        A("from.alias", 1, "t AS t1"),
        A("from.db", 1, "db.t"),
        A("from.catalog", 1, "c.db.t"),
        A("from.derived", 1, "({query}) AS t"),
        A("from.values", 1, "(VALUES (1, 2)) AS t(a, b)"),
        A("from.comma", 1, "t, u"),
        A("join.inner", 1, "t JOIN u ON {expr}"),
        A("join.left", 1, "t LEFT JOIN u ON {expr}"),
        A("join.right", 1, "t RIGHT JOIN u ON {expr}"),
        A("join.full", 1, "t FULL JOIN u ON {expr}"),
        A("join.cross", 1, "t CROSS JOIN u"),
        A("join.using", 1, "t JOIN u USING (b)"),
        A("join.two", 1, "t JOIN u ON {expr} LEFT JOIN v ON {expr}"),
        A("join.derived", 1, "t JOIN ({query}) AS u ON {expr}"),
        A("join.natural", 1, "t NATURAL JOIN u"),
        A("from.unnest", 1, "UNNEST(arr) AS t(a)"),
        A("from.tablesample", 1, "t TABLESAMPLE (10 PERCENT)"),
    ]
    where = [A("where.none", 0, ""), A("where", 1, " WHERE {expr}")]
    group = [
        A("group.none", 0, ""),
        A("group", 1, " GROUP BY {expr}"),
        A("group.two", 1, " GROUP BY {expr}, {expr}"),
        A("group.having", 1, " GROUP BY {expr} HAVING {expr}"),
        A("group.rollup", 1, " GROUP BY ROLLUP ({expr}, {expr})"),
        A("group.ordinal", 1, " GROUP BY 1"),
    ]
    qualify = [A("qualify.none", 0, ""), A("qualify", 1, " QUALIFY {expr}")]
    window = [A("window.none", 0, ""), A("window", 1, " WINDOW w AS (PARTITION BY {expr})")]
    order = [
        A("order.none", 0, ""),
        A("order", 1, " ORDER BY {expr}"),
        A("order.desc", 1, " ORDER BY {expr} DESC"),
        A("order.nulls_first", 1, " ORDER BY {expr} NULLS FIRST"),
        A("order.desc_nulls_last", 1, " ORDER BY {expr} DESC NULLS LAST"),
        A("order.two", 1, " ORDER BY {expr}, {expr} DESC"),
    ]
    limit = [
        A("limit.none", 0, ""),
        A("limit", 1, " LIMIT 10"),
        A("limit.offset", 1, " LIMIT 10 OFFSET 5"),
        A("offset", 1, " OFFSET 5"),
    ]
    select = [A("select", 0, "SELECT {distinct}{proj} FROM {from}{where}{group}{qualify}{window}{order}{limit}")]
    query = [
        A("q.select", 0, "{select}"),
        A("q.select_nofrom", 1, "SELECT {proj}"),
        A("set.union", 1, "{select} UNION {select}"),
        A("set.union_all", 1, "{select} UNION ALL {select}"),
        A("set.intersect", 1, "{select} INTERSECT {select}"),
        A("set.except", 1, "{select} EXCEPT {select}"),
        A("set.paren", 1, "({select}) UNION ({select})"),
        A("set.nested", 1, "{select} UNION ({select} INTERSECT {select})"),
        A("set.order_limit", 1, "{select} UNION {select} ORDER BY 1 LIMIT 3"),
        A("cte.one", 1, "WITH c AS ({query}) {select}"),
        A("cte.two", 1, "WITH c AS ({query}), c2 AS ({query}) {select}"),
        A("cte.cols", 1, "WITH c(x, y) AS ({query}) {select}"),
        A("cte.recursive", 1, "WITH RECURSIVE c AS ({query} UNION ALL SELECT a FROM c) {select}"),
        A("q.subquery_only", 1, "({query})"),
        A("q.values", 1, "VALUES (1, 2), (3, 4)"),
    ]
    stmt = [
        A("stmt.query", 0, "{query}"),
        A("dml.insert_values", 1, "INSERT INTO t VALUES ({expr}, {expr})"),
        A("dml.insert_cols_select", 1, "INSERT INTO t (a, b) {query}"),
        A("dml.update", 1, "UPDATE t SET a = {expr}"),
        A("dml.update_where", 1, "UPDATE t SET a = {expr}, b = {expr} WHERE {expr}"),
        A("dml.delete", 1, "DELETE FROM t"),
        A("dml.delete_where", 1, "DELETE FROM t WHERE {expr}"),
        A("dml.merge", 1, "MERGE INTO t USING u ON t.a = u.a WHEN MATCHED THEN UPDATE SET b = {expr} WHEN NOT MATCHED THEN INSERT (a, b) VALUES (u.a, {expr})"),
        A("ddl.create_table", 1, "CREATE TABLE t (a INT, b VARCHAR(10) NOT NULL, c DECIMAL(10, 2) DEFAULT 0, PRIMARY KEY (a))"),
        A("ddl.create_table_ine", 1, "CREATE TABLE IF NOT EXISTS db.t (a INT)"),
        A("ddl.ctas", 1, "CREATE TABLE t2 AS {query}"),
        A("ddl.create_view", 1, "CREATE VIEW v AS {query}"),
        A("ddl.create_or_replace_view", 1, "CREATE OR REPLACE VIEW v AS {query}"),
        A("ddl.drop_table", 1, "DROP TABLE t"),
        A("ddl.drop_if_exists", 1, "DROP TABLE IF EXISTS t"),
        A("ddl.drop_view", 1, "DROP VIEW v"),
        A("ddl.alter_add", 1, "ALTER TABLE t ADD COLUMN c INT"),
        A("ddl.alter_drop", 1, "ALTER TABLE t DROP COLUMN c"),
        A("ddl.alter_rename", 1, "ALTER TABLE t RENAME TO t2"),
        A("ddl.create_index", 1, "CREATE INDEX i ON t (a)"),
        A("ddl.truncate", 1, "TRUNCATE TABLE t"),
    ]
    rules = {
        "expr": expr, "timefmt": timefmt, "ntimefmt": ntimefmt, "proj": proj, "distinct": distinct, "from": frm, "where": where,
        "group": group, "qualify": qualify, "window": window, "order": order, "limit": limit, "select": select,
        "query": query, "stmt": stmt,
    }
    if comments:
        # comment-carrying variants for C07/C04: comments before/after tokens at statement, projection,
        # operator and clause positions
        rules["expr"] = expr + [
            A("cmt.after_operand", 1, "{expr} /* c1 */ + {expr}"),
            A("cmt.before_operand", 1, "{expr} + /* c2 */ {expr}"),
            A("cmt.in_call", 1, "ABS(/* c3 */ {expr})"),
        ]
        rules["proj"] = proj + [
            A("cmt.proj", 1, "{expr} /* c4 */, {expr} -- c5\n"),
            A("cmt.proj_alias", 1, "{expr} AS x /* c6 */"),
        ]
        rules["where"] = where + [A("cmt.where", 1, " /* c7 */ WHERE /* c8 */ {expr}")]
        rules["stmt"] = stmt + [
            A("cmt.stmt_lead", 1, "/* c9 */ {query}"),
            A("cmt.stmt_trail", 1, "{query} /* c10 */"),
            A("cmt.stmt_line", 1, "-- c11\n{query}"),
        ]
    return Grammar(rules, depth_nts=("expr", "query"))


@functools.lru_cache(None)
def statements(dialect: str, k: int, depth: int = 4, start: str = "stmt", comments: bool = False) -> tuple:
    return core_grammar(dialect, comments).enumerate(start, k, depth)
