"""E1 - deviation-bounded derivation enumerator.

A grammar maps a nonterminal name to an ordered list of alternatives (simplest first; alternative 0 is
the default and must terminate without recursion). An alternative is Alt(tag, weight, parts) where parts
is a list of literal strings and N("nonterminal") references. The cost of a derivation is the sum of the
weights of the alternatives it uses; `enumerate_(g, start, k, depth)` yields EVERY derivation of cost <= k
and nesting depth <= depth, ordered by (cost, length, text), deduplicated by text (the cheapest
derivation of a text wins). Pure and deterministic.
"""
from __future__ import annotations

import typing as t
from dataclasses import dataclass, field


@dataclass(frozen=True)
class N:
    name: str


@dataclass(frozen=True)
class Alt:
    tag: str
    weight: int
    parts: tuple
    # optional payload merged into the derivation's info dict (ground truth etc.)


def alt(tag: str, weight: int, *parts: t.Any) -> Alt:
    out = []
    for p in parts:
        if isinstance(p, (str, N)):
            out.append(p)
        else:
            raise TypeError(p)
    return Alt(tag, weight, tuple(out))


def parse_template(template: str) -> tuple:
    """'{expr} + {expr}' -> ('', N('expr'), ' + ', N('expr'))"""
    parts: list = []
    i = 0
    while i < len(template):
        j = template.find("{", i)
        if j < 0:
            parts.append(template[i:])
            break
        if j > i:
            parts.append(template[i:j])
        e = template.index("}", j)
        parts.append(N(template[j + 1:e]))
        i = e + 1
    return tuple(parts)


def A(tag: str, weight: int, template: str) -> Alt:
    return Alt(tag, weight, parse_template(template))


class Grammar:
    def __init__(self, rules: dict[str, list[Alt]], depth_nts: t.Iterable[str] | None = None):
        self.rules = rules
        # only these (recursive) nonterminals consume nesting depth; default: all
        self.depth_nts = set(depth_nts) if depth_nts is not None else set(rules)
        self._memo: dict = {}
        for name, alts in rules.items():
            for a in alts:
                for p in a.parts:
                    if isinstance(p, N) and p.name not in rules:
                        raise KeyError(f"{name}: unknown nonterminal {p.name}")

    def expand(self, nt: str, budget: int, depth: int) -> tuple:
        """All (cost, text, tags) derivations of nt with cost <= budget and depth <= depth."""
        key = (nt, budget, depth)
        r = self._memo.get(key)
        if r is not None:
            return r
        best: dict[str, tuple] = {}
        for a in self.rules[nt]:
            if a.weight > budget:
                continue
            has_nt = any(isinstance(p, N) and p.name in self.depth_nts for p in a.parts)
            if has_nt and depth <= 0:
                continue
            tag0 = (a.tag,) if (a.weight or a.tag.endswith("!")) else ()   # free alternatives are untagged unless marked with "!"
            partials = [(a.weight, "", tag0)]
            for p in a.parts:
                if isinstance(p, str):
                    partials = [(c, s + p, tg) for c, s, tg in partials]
                else:
                    new = []
                    for c, s, tg in partials:
                        d2 = depth - 1 if p.name in self.depth_nts else depth
                        for c2, s2, tg2 in self.expand(p.name, budget - c, d2):
                            new.append((c + c2, s + s2, tg + tg2))
                    partials = new
                if not partials:
                    break
            for c, s, tg in partials:
                old = best.get(s)
                if old is None or c < old[0]:
                    best[s] = (c, s, tuple(sorted(tg)))
        r = tuple(sorted(best.values(), key=lambda x: (x[0], len(x[1]), x[1])))
        self._memo[key] = r
        return r

    def enumerate(self, start: str, k: int, depth: int = 4) -> tuple:
        return self.expand(start, k, depth)


def count_by_cost(items) -> dict[int, int]:
    out: dict[int, int] = {}
    for c, _, _ in items:
        out[c] = out.get(c, 0) + 1
    return out
