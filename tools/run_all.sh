#!/bin/sh
# usage: tools/run_all.sh [tier] [ids...]   - runs the checks sequentially, prints one summary line per check
cd "$(dirname "$0")/.."
tier=${1:-quick}; shift 2>/dev/null
ids=${@:-C01 C02 C03 C04 C05 C06 C07 C08 C09 C10 C11 C12 C13 C14 C15 C16 C17 C18 C19 C20}
for c in $ids; do
  out=$(./check $c --tier $tier 2>&1); rc=$?
  v=$(printf '%s\n' "$out" | grep -c '^VIOLATION')
  k=$(printf '%s\n' "$out" | grep -c '^KNOWN-FINDING')
  w=$(printf '%s\n' "$out" | tail -1 | sed -n 's/.*wall=\([0-9.]*\)s.*/\1/p')
  echo "$c exit=$rc violations=$v known=$k wall=${w}s seed=${VERIF_SEED:-0}"
  if [ $rc -ne 0 ]; then printf '%s\n' "$out" | grep -A2 '^VIOLATION' | head -12; printf '%s\n' "$out" | grep -i 'harness error' | head -3; fi
done
