#!/venv/bin/python
"""Regenerates the seeded-change table at the end of DESIGN.md from seeded/*/meta.json."""
import glob, json, os
ROOT = os.path.dirname(os.path.dirname(os.path.abspath(__file__)))
rows = []
for d in sorted(glob.glob(os.path.join(ROOT, "seeded", "S*", ""))):
    m = json.load(open(d + "meta.json"))
    hist = m.get("history", [])
    missed = any(h.get("detected_by") == [] for h in hist)
    note = next((h.get("note", "") for h in hist if h.get("note")), "")
    det = m.get("detected_by", [])
    rows.append((m["id"], m["property"], ", ".join(det) or "-",
                 (("missed at first; " if det else "MISSED; ") + note.split(" - ", 1)[-1]) if missed else "caught at first evaluation"))
table = "\n| seed | property | detected by | notes |\n|---|---|---|---|\n" + "\n".join("| %s | %s | %s | %s |" % r for r in rows) + "\n"
p = os.path.join(ROOT, "DESIGN.md")
s = open(p).read()
a = s.index("\n| seed | property | detected by | notes |")
b = s.index("\nPattern of the misses")
s = s[:a] + table + s[b:]
n_missed = sum(1 for r in rows if r[3].startswith(("missed", "MISSED")))
n_open = sum(1 for r in rows if r[2] == "-")
open_ids = ", ".join(r[0] for r in rows if r[2] == "-") or "none"
import re
s = re.sub(r"Pattern of the misses.*?the bounds stayed exhaustive\.",
           f"Pattern of the misses ({n_missed} of {len(rows)} seeds were missed at first; not detected so far: {open_ids}): every one was a gap in an *alphabet* "
           "(no grouped IN-subquery, no expression ORDER BY key, comment texts too short, no column spelled like a table, no `CAST ... FORMAT`, "
           "one source name per alias, join kind x residual ON beyond the cost bound, no per-call `normalize=False`, construct pairs only in the base "
           "dialect, no wrapped option list, no user-defined type, only the bare equi-join condition, only `quoted=True` identifiers, no column-list "
           "alias over a 3-branch set operation, no set-operation body in a scalar subquery, no foreign dialect's keyword in unit position, no nested WITH named like a table, "
           "no conditional with constant branches, every inner query always aliased, no chain of divisions, no two inputs that are equal as expressions but differ as text, no literal / star position judged, no class defined outside the library, no two kinds of quoted text in one statement, "
           "no text spanning lines inside a wrapped construct, .sql() never rooted at a leaf, no re-aliased base table, no compound interval, no case-expanding letter, no CTE referenced twice with "
           "different column lists, no reordered re-registration, no DISTINCT with GROUP BY, no non-positive subscript, no leading byte order mark) or in the "
           "*scheduling points / harness bodies* of C19 (chosen by function name; none while a module body executes; none in the callee that fills a published table; identity-only generation) - and three times a *reference* that was built by the code under test itself (C17 leaves compared by name, C18 references replaying the same add_table calls, "
           "C15 twins equal under the library's own equality). The alphabets / point sets were widened accordingly; the bounds stayed exhaustive.", s, flags=re.S)
open(p, "w").write(s)
print(len(rows), "seeds,", n_missed, "missed at first")
