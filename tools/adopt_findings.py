#!/venv/bin/python
"""Append the violations currently in replays/<ID>/ to known_findings.json as status=known.
Only ever run by hand after each one was classified as a genuine defect of sqlglot (never at check time).
usage: tools/adopt_findings.py C01 [substring-filter]"""
import glob, json, os, sys
ROOT = os.path.dirname(os.path.dirname(os.path.abspath(__file__)))
pid = sys.argv[1]
flt = sys.argv[2] if len(sys.argv) > 2 else ""
path = os.path.join(ROOT, "known_findings.json")
if os.environ.get("VERIF_REPLAYS") and not os.environ.get("VERIF_ADOPT_CLEAN_TREE_CONFIRMED"):
    ev = os.path.join(ROOT, "evidence_scratch", pid + ".json")
    print("replays_scratch/ holds the LATEST scratch run, which may have been a run against a deliberately broken tree.\n"
          "Re-run `VERIF_SCRATCH=1 ./check", pid + "` on the clean /repo first, then set VERIF_ADOPT_CLEAN_TREE_CONFIRMED=1.")
    sys.exit(2)
known = json.load(open(path))
have = {(e["property"], e["signature"]) for e in known}
n = 0
for f in sorted(glob.glob(os.path.join(os.environ.get("VERIF_REPLAYS", os.path.join(ROOT, "replays")), pid, "*.json"))):
    r = json.load(open(f))
    if flt and flt not in r["signature"]:
        continue
    if (pid, r["signature"]) in have:
        continue
    known.append({"property": pid, "status": "known", "signature": r["signature"], "what": r["what"][:400], "example": r["case"]})
    n += 1
json.dump(known, open(path, "w"), indent=1)
print("added", n, "entries for", pid)
