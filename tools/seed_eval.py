#!/venv/bin/python
"""Evaluate a seeded change produced in a scratch worktree and (if it qualifies) store it under /verif/seeded/<id>/.

usage: tools/seed_eval.py <worktree> <seed-id> <property> <check ids...> [--skip-tests]
Steps: (1) the diff applies to /repo; (2) in the worktree: existing tests pass WITH the change, demo fails with it and passes
without; (3) apply to /repo, run the named checks (quick), undo; (4) write seeded/<id>/{patch.diff,demo.py,meta.json}."""
import json, os, shutil, subprocess, sys, time

ROOT = os.path.dirname(os.path.dirname(os.path.abspath(__file__)))
args = [a for a in sys.argv[1:] if not a.startswith("--")]
skip_tests = "--skip-tests" in sys.argv
in_worktree = "--in-worktree" in sys.argv   # run the checks against the worktree (VERIF_REPO) instead of patching /repo
wt, sid, prop, *checks = args
env = dict(os.environ, PYTHONPATH=wt, PYTHONDONTWRITEBYTECODE="1")

def sh(cmd, cwd=None, env=None):
    return subprocess.run(cmd, shell=True, cwd=cwd, env=env, capture_output=True, text=True)

patch = os.path.join(wt, "patch.diff")
demo = os.path.join(wt, "demo.py")
# regenerate the patch from the worktree's actual state (source files only)
d = sh("git diff -- sqlglot", cwd=wt).stdout
if d.strip():
    open(patch, "w").write(d)
meta = {"id": sid, "property": prop, "checks_run": checks}
_prev = os.path.join(ROOT, "seeded", sid, "meta.json")
if os.path.exists(_prev):
    _old = json.load(open(_prev))
    for k in ("tests_with_change", "history"):
        if k in _old:
            meta[k] = _old[k]
    meta.setdefault("history", []).append({"detected_by": _old.get("detected_by"), "check_results": {c: v.get("violations") for c, v in _old.get("check_results", {}).items()}})
r = sh(f"git -C /repo apply --check {patch}")
meta["applies_to_repo"] = r.returncode == 0
if r.returncode:
    print("patch does not apply to /repo:", r.stderr[:300]); sys.exit(1)
# demo with change
r = sh(f"/venv/bin/python {demo}", cwd=wt, env=env)
meta["demo_with_change_exit"] = r.returncode
# (not git stash: the stash stack is shared by all worktrees of a repository, so parallel evaluations would swap changes)
assert sh(f"git apply -R {patch}", cwd=wt).returncode == 0
try:
    r0 = sh(f"/venv/bin/python {demo}", cwd=wt, env=env)
    meta["demo_without_change_exit"] = r0.returncode
finally:
    assert sh(f"git apply {patch}", cwd=wt).returncode == 0
print("demo with change exit", meta["demo_with_change_exit"], "| without", meta["demo_without_change_exit"])
if not skip_tests:
    t = time.time()
    r = sh("/venv/bin/python -m pytest -q -p no:cacheprovider -n 6 tests/ 2>&1 | tail -1", cwd=wt, env=env)
    meta["tests_with_change"] = r.stdout.strip()
    print("tests:", meta["tests_with_change"], f"({time.time()-t:.0f}s)")
ok = meta["demo_with_change_exit"] != 0 and meta["demo_without_change_exit"] == 0 and (" passed" in meta.get("tests_with_change", "") and "failed" not in meta.get("tests_with_change", ""))
meta["qualifies"] = ok
# run checks against /repo with the patch applied (or, with --in-worktree, against the worktree itself, which must be
# at /repo's HEAD plus the change - used while background runs need an unmodified /repo)
results = {}
cenv = dict(os.environ, VERIF_SCRATCH="1")
if in_worktree:
    head_repo = sh("git -C /repo rev-parse HEAD").stdout.strip()
    head_wt = sh("git rev-parse HEAD", cwd=wt).stdout.strip()
    if head_repo != head_wt:
        # /repo moved on (a fix: commit) since the worktree was made: carry the change over to the new HEAD
        ok_move = (sh(f"git apply -R {patch}", cwd=wt).returncode == 0 and sh(f"git checkout -q --detach {head_repo}", cwd=wt).returncode == 0
                   and sh(f"git apply {patch}", cwd=wt).returncode == 0)
        if not ok_move:
            print("worktree is not at /repo's HEAD and the change could not be carried over:", head_wt[:8], "vs", head_repo[:8]); sys.exit(1)
        print("worktree moved to /repo's HEAD", head_repo[:8])
    cenv["VERIF_REPO"] = wt
    meta["evaluated_in"] = "worktree (VERIF_REPO)"
else:
    sh(f"git -C /repo apply {patch}")
    meta["evaluated_in"] = "/repo (patch applied, then reverted)"
try:
    for c in checks:
        t = time.time()
        r = sh(f"./check {c}", cwd=ROOT, env=cenv)
        v = [l for l in r.stdout.splitlines() if l.startswith("VIOLATION")]
        sigs = [l.strip()[11:] for l in r.stdout.splitlines() if l.strip().startswith("signature:")]
        results[c] = {"exit": r.returncode, "violations": len(v), "signatures": sigs[:5], "wall_s": round(time.time() - t)}
        print(f"{c}: exit={r.returncode} violations={len(v)} {sigs[:3]}")
        if r.returncode not in (0, 1):
            print(r.stderr[-800:])
finally:
    if not in_worktree:
        sh("git -C /repo checkout -- .")
        print(sh("git -C /repo status --short").stdout)
meta["check_results"] = results
meta["detected_by"] = [c for c, v in results.items() if v["exit"] == 1]
out = os.path.join(ROOT, "seeded", sid)
os.makedirs(out, exist_ok=True)
shutil.copy(patch, os.path.join(out, "patch.diff"))
shutil.copy(demo, os.path.join(out, "demo.py"))
json.dump(meta, open(os.path.join(out, "meta.json"), "w"), indent=1)
print("stored in", out, "qualifies:", ok, "detected by:", meta["detected_by"])
