#!/venv/bin/python
"""Regenerates MANIFEST.json from the table below (single source of truth for the interface)."""
import json, os

ROOT = os.path.dirname(os.path.dirname(os.path.abspath(__file__)))
PROPS = [json.loads(l)["id"] for l in open(os.path.join(ROOT, "properties.jsonl"))]

TRUST = "CPython 3.12.1 (/venv), the harness in /verif/vlib and the reference models named in DESIGN.md"

DT = ("every statement that tests/dialects/*.py pass to validate_identity / validate_all (6839, read by AST), each in its own dialect")
CL = ("G_clauses = every SUBSET of the optional clauses of each statement kind (SELECT, DELETE, UPDATE, INSERT, MERGE, CREATE, DROP, ALTER, "
      "CREATE INDEX, set operations, window specifications, aggregates with modifiers, GROUP BY forms, joins, FROM items: 4559 statements)")
ADDENDA = {
    "C01": "Also: " + CL + " in all 34 dialects; every projection expression of " + DT + " placed unparenthesised into 24 operator contexts; quick runs the complete pair space of operator-family constructs at expression level in base + 4 dialects.",
    "C02": "Join conditions range over 8 ON shapes (one-sided conjuncts, residual, OR, inequality) for inner / outer / SEMI / ANTI joins; the aggregate menu includes arithmetic over aggregates; the arithmetic menu includes chains of divisions (x / 2 / 2, x / 2 * 3 / 2, (x / 2) / 2, x / (4 / 2), x % 3 / 2).",
    "C03": "The fragment includes 1152 three-item join chains (first item x join kind x join kind x second ON target x outer filter incl. three DNF filters over two items), 144 derived-table body x outer-use combinations (grouped bodies projecting only aggregates, joins on the body's aggregate output) and correlated subqueries over two same-named outer columns.",
    "C04": "Also the identifier WITHOUT the quoted flag wherever the generator promises to quote by itself (identify=True, digit-leading names).",
    "C05": "Seeds also include " + DT + " (1-token mutants, and prefixes under EVERY error level); every such statement and every G_clauses statement is generated into ALL dialects; every function name registered by each dialect's parser is called with 0..5 positional arguments, DISTINCT, * and named arguments; pumping covers 84 families in all dialects (every construct with an expression / query hole nested in itself to depth 8) and every registered function name / type keyword nested in itself to depth 4 and 8; growth beyond x5 per doubling (i.e. beyond quadratic) or an exhausted step budget is a violation.",
    "C06": "Focused families also contain conditionals whose branches are constants or the condition itself (IF / CASE x condition kinds x 5x5 branch pairs x contexts).",
    "C07": "Trees also come from " + DT + " and from " + CL + ", under every single option deviation.",
    "C08": "The parse stream and the optimizer-rule stream also run on " + DT + "; the rule stream also runs on the 360 qualification shapes of C10 (shadowing, USING / NATURAL chains, stars with modifiers, nested scopes, the same expression referenced twice) in two dialects.",
    "C09": "The calls are also applied to " + DT + " and to G_clauses statements.",
    "C10": "375 shapes in total: also every CTE / derived-table wrapper (with and without a column list, star or named) over 8 set-operation body shapes, NATURAL / USING chains whose common column sits in a non-neighbour table, scope-name collisions (a WITH nested in a derived table / set operand / subquery / CTE body whose CTE is named like a real table or an outer CTE, next to a sibling reading the real table, with and without a top-level WITH, both orders) a star over every order of table / derived-table items under four join forms, duplicate references of one expression / USING column, and a schema of 15 quoted column names whose only case-significant letters are non-ASCII, qualified with identify=False in every dialect; DuckDB decides rows and output names.",
    "C11": "Also LIMIT / OFFSET without a total order (judged by row count and containment in the unlimited result), correlated subqueries over two same-named outer columns, and set operations / self joins / IN subqueries whose operands read the SAME table (own name, same alias, two aliases); two plans of one query over the same data must agree with each other.",
    "C12": "States also include " + DT + ", a cast to every DType member (bare / parameterised / nested) and trees over classes defined outside the library (some named like a core class, interleaved with their namesakes in both orders); an empty list must come back as an empty list.",
    "C13": "All oracles also run on " + DT + ", as written and with every inter-token gap turned into LF / CRLF+TAB, and on every ordered pair of 11 x 6 inputs fed to one reused Tokenizer; node positions are judged for identifiers, written stars and literals; every core statement also runs behind a byte order mark / zero-width space / no-break space at the very start of the input.",
    "C14": "Inputs also include " + DT + " with its 1-token deletions / duplications (parse relation) and generated into 12 (thorough: all) targets, and G_clauses statements; the WARN reference for generation is the list of Generator.unsupported() calls; the RAISE message must equal the documented rendering exactly.",
    "C15": "Calls also include " + DT + " (quick: every second), 17 transform probes into every target, BY NAME star expansions and twins that are equal under Expr.__eq__ but differ as text (case spellings of JSON keys, type names, collations, parameters, units; comments); every call runs twice in a row in one cell; each dialect gets a cold and a warm (all other dialects loaded first) process. Keyword probes: every key / value word of every dialect's tokenizer / parser / Dialect class tables (3852 words) in 12 syntactic positions in 8 (thorough: all) dialects, cold vs warm vs after the forward history. Histories of FAILING inputs: every token prefix and 1-token deletion of every dialect-test statement in 16 cells; after each input the class-level tables are compared and the words that entered / left one are probed at once and compared with a cold process.",
    "C17": "Wrappers include scalar / IN subqueries whose body is a set operation, and the same inner query referenced twice (bare with columns qualified by its own name + through an alias in a scalar subquery / self join / IN subquery, either order).",
    "C18": "Names are given as strings, as Table objects and as quoted / unquoted Identifier objects; column specs include the same columns in two orders; a third reference is a fresh schema that received only the last registration of each table spelling.",
    "C19": "Scheduling points also lie in every function anywhere in the package that an AST scan of the current tree finds writing state shared between threads (global / module-level / class-level stores and mutating calls, cache decorators) and in everything such a function calls; for each such call-time writer the dialect-test statements reaching it are discovered and run against themselves / each other as additional 2-thread harnesses, generated into six dialects.",
    "C20": "Edits include replacing a node by an instance of its sub- / superclass (CAST -> TRY_CAST, HEX -> LOWER_HEX, EXPLODE -> POSEXPLODE).",
}

CHECKS = {
    "C01": dict(
        category="exploration", engine="E1",
        technique="exhaustive deviation-bounded enumeration of grammar derivations x all dialects x option sets; round-trip fixpoint oracle; exhaustive format-string enumeration against a longest-match reference",
        text="Every statement derivable from the tagged core grammar with at most k non-default constructs (k=1 in all 34 dialects "
             "under 4 generator option sets, k=2 in the base dialect; thorough: k=2 everywhere) is parsed, generated, re-parsed and "
             "re-generated in the same dialect; the second text must equal the first, in the base dialect the trees must be equal and "
             "time-format literals unchanged. Every time-format string of <= 3 (4) atoms over each dialect's own mapping keys, their "
             "non-key prefixes and separators is converted by format_time and compared with an independent greedy longest-match "
             "reference. Complete for all interactions of <= k constructs; counterexamples are minimal.",
        note="statements a dialect refuses to parse are outside the space; violations whose tag set strictly contains another "
             "violation's tag set in the same dialect are counted but not reported separately. " + TRUST,
        design="2/C01"),
    "C09": dict(
        category="model_checking", engine="E2",
        technique="explicit exploration of call histories (all single calls, all ordered pairs) on real trees with an argument-unchanged invariant; copy independence under every tree mutation",
        text="States are (argument tree, caches left by earlier calls). Every public non-mutating call - Expression.sql into all 34 "
             "dialects (plus pretty/identify), transform, 14 builders with copy=True, optimize, qualify/annotate/normalize_identifiers "
             "on a copy, expand, replace_tables, replace_placeholders, diff in both roles, lineage - is applied to every tree of the core "
             "grammar (parsed in base and native dialects) and identity.sql, to attached sub-trees, and in all ordered pairs on the "
             "simplest trees; after each history the argument's exact fingerprint (args, comments, types, meta), its own parent link, "
             "its SQL text, its internal links and cached hashes must be unchanged/valid. Every C08 mutation at every position of a "
             "copy must leave the original untouched and vice versa.",
        note="exceptions raised by the calls are not judged here. " + TRUST,
        design="2/C09"),
    "C10": dict(
        category="exploration", engine="E1",
        technique="exhaustive enumeration of qualification scenarios x schema depths x identifier spellings x normalisation strategies; structural visibility oracle + DuckDB second opinion; exhaustive BMP sweep for normalize_identifier",
        text="57 query shapes (unqualified / partially qualified columns, shadowing aliases, alias references in WHERE/GROUP BY/HAVING/"
             "ORDER BY, ordinals, USING, stars incl. EXCLUDE/REPLACE, derived tables and CTEs with column lists, correlated subqueries "
             "with shadowing at two levels, set operations, LATERAL, QUALIFY, DISTINCT ON, ambiguous and unknown columns) are qualified "
             "under schema depth 1-3, three spellings and dialects covering every normalisation strategy. The result must alias every "
             "table, bind every column to a source visible at that point (or an output name under ORDER BY / DISTINCT ON), expand stars "
             "in schema order, keep output names, be a fixpoint of qualify on the tree and through the text, and - DuckDB dialect - "
             "return the same rows as the original on a database with distinct column values. normalize_identifier is applied to every "
             "BMP code point and 100 case-adversarial 2-character strings, quoted and unquoted, per strategy: idempotent, and never "
             "altering case-sensitive identifiers.",
        note="OptimizeError is an allowed outcome; ambiguity that the library resolves instead of refusing is not judged. " + TRUST + "; DuckDB 1.5.5",
        design="2/C10"),
    "C11": dict(
        category="exploration", engine="E1",
        technique="exhaustive enumeration of queries (cost <= k) x ALL small databases; differential oracle against SQLite and DuckDB",
        text="Every query of the executor fragment with at most k constructs (k=2 quick: 965 queries, k=3 thorough) is planned once and "
             "executed by the Python executor on every database with <= 2 rows per mentioned table over {NULL,1,2} (55 per table, 3025 "
             "for two tables: empty tables, all-NULL groups, duplicates and unmatched rows on either side all occur) plus a rich "
             "instance; column names, row multiset and the order of ORDER BY keys must equal SQLite's (every case) and DuckDB's "
             "(tie-breaker / SQLite-rejected constructs), or the executor raises ExecuteError.",
        note="a disagreement counts only when the two engines agree with each other or only one accepts the query. " + TRUST + 
             "; SQLite 3.40.1, DuckDB 1.5.5",
        design="2/C11"),
    "C12": dict(
        category="model_checking", engine="E2",
        technique="closure graph: every serde/copy transition (and 2-compositions) from every enumerated tree state must return to an equal state",
        text="States are trees from the core grammar (k<=1, per dialect), identity.sql and optimizer/annotation fixtures, each as parsed, "
             "after annotate_types, after qualify and after both, plus hand-decorated trees carrying comments and meta of every JSON kind. "
             "Transitions dump+load, JSON text round trip, pickle protocols 2-5, copy, deepcopy and seven 2-step compositions are applied "
             "to every state; each result must be == to the original, have the same structural fingerprint including public types, "
             "comments and meta, generate the same SQL (native and base dialect), satisfy the C08 tree invariants and share no node; "
             "dump must be JSON-serialisable and a fixpoint. The evidence reports node-class and (class, arg, value-type) coverage.",
        note="missing arg / None / [] are identified as serde does by design. " + TRUST,
        design="2/C12"),
    "C13": dict(
        category="exploration", engine="E1",
        technique="exhaustive enumeration of all short character strings and lexeme sequences per dialect; positions re-derived independently from the raw text",
        text="Every character string of length <= 4 (thorough 5) over a per-dialect position-adversarial alphabet (blank, tab, LF, CR, "
             "multi-byte characters, every string/identifier delimiter, comment markers, number characters) is tokenized in all 34 "
             "dialects; every sequence of <= 3 lexemes from a ~35-entry menu (multi-word keywords split by blanks/newlines, numbers of "
             "every form, strings with doubled quotes / escapes / embedded newlines, comments, command tails) joined by every separator; "
             "every single-token deletion/duplication of G_core statements for ParseError entries; identifier position meta. Token "
             "spans must be in range, ordered, non-overlapping, separated only by whitespace/comments (independent gap scanner), "
             "line/col must equal an independent line/column reference at the token's last offset, and the span must select the lexeme.",
        note="inputs with a lone CR are judged on offsets only; token line/col describe the token's last character. " + TRUST,
        design="2/C13"),
    "C14": dict(
        category="model_checking", engine="E1",
        technique="exhaustive enumeration of inputs x the four error levels as a product state; relational invariant over the four runs; reuse histories on one Parser",
        text="For every core-grammar statement, every 1-token mutant of the simplest seeds, and every script of <= 3 statements over valid / "
             "invalid-early / invalid-late / invalid-inside-a-speculative-branch / doubly-invalid / empty parts, in 8 (thorough 34) "
             "dialects and max_errors in {1,3}: IGNORE and WARN return equal trees; RAISE raises exactly when WARN's first emitting "
             "check logged errors, carries the same errors and renders min(n, max_errors) of them plus the '... and k more' tail; "
             "IMMEDIATE raises the first of them; the parser's level is restored. For generation of core-grammar trees from 7 source "
             "dialects into all 34 targets: IGNORE/WARN/RAISE texts agree, RAISE/IMMEDIATE raise exactly when WARN logs, message count "
             "obeys max_unsupported. Histories of 3 inputs on one reused Parser must answer like a fresh one.",
        note="log capture on logger 'sqlglot' and counting wrappers on Parser.check_errors/_try_parse/raise_error are attached at run "
             "time (exit 2 if missing); inputs with internal exceptions are C05's. " + TRUST,
        design="2/C14"),
    "C15": dict(
        category="model_checking", engine="E4",
        technique="process matrix: hash seeds x process histories (orders, repetitions, cold-import permutations, alone) with digest equality; order-coverage witness; reuse histories on component instances",
        text="9.4k calls (transpile from/to many dialects, tokenize, pretty, annotate, qualify, optimize, simplify / normalize / typed "
             "simplify incl. multi-operand connectors, lineage) are executed in fresh interpreters for 24 (thorough 64) hash seeds in "
             "forward order, in reverse order, with every third call twice, in all 6 permutations of four cross-dialect groups of 3 "
             "(each permutation in its own cold process: import-order effects) and alone in a fresh process; every digest must equal the "
             "seed-0 forward cell. The evidence carries a witness of how many iteration orders of the relevant small sets the seeds "
             "realised. All histories of length <= 3 over input menus on one reused Tokenizer / Parser / Generator / Dialect / "
             "MappingSchema must answer like a fresh instance (3.9k histories, in two seeds).",
        note="hash seeds are a 2^32 space; the witness, not the seed count, backs the claim. " + TRUST,
        design="2/C15"),
    "C16": dict(
        category="exploration", engine="E1",
        technique="complete operator/function x operand-type tables and depth-2 compositions; engine typeof() as oracle",
        text="For 12 binary operators x all ordered pairs of 17 atoms (10 typed columns BOOLEAN..TIMESTAMP and 7 literals), unary "
             "operators, CAST/TRY_CAST to 9 types, CASE/IF/COALESCE/NULLIF/GREATEST/LEAST x all atom pairs, 65 function / aggregate / "
             "window / predicate forms x 10 column types, and depth-2 compositions over 5 representative types (8.8k expressions, 4.8k "
             "accepted by DuckDB): the type class annotate_types infers under the DuckDB dialect (after qualify) must equal the class "
             "DuckDB's typeof() reports on a one-row table; annotation must not change the generated SQL.",
        note="class-level comparison; inferred UNKNOWN and engine \"NULL\" are compatible with anything; DuckDB 1.5.5. " + TRUST,
        design="2/C16"),
    "C17": dict(
        category="exploration", engine="E1",
        technique="exhaustive bottom-up enumeration of relations (<= k wrappers) carrying compositional ground truth x 4 equivalent presentations; exact leaf-set oracle and lineage(None) differential",
        text="Every relation built from base tables with at most 3 (thorough 4) wrappers - projection expressions, *, t.*, constants, "
             "aggregates, windows, CASE, column swap with filter, scalar subquery, self join of one inner query through two aliases, join "
             "with every cheaper relation, UNION ALL with every relation of equal arity (5662 relations at k=3) - carries for each output "
             "column the set of base columns it was built from. Each is rendered inline, with CTEs (shared CTEs reused), with first-level "
             "inner queries supplied through sources=, and with renamed aliases; for every output column the leaves of lineage(col) "
             "must equal the ground truth in all presentations and equal lineage(None)[col] (shared cache).",
        note="ground truth is purely syntactic flow through projections (incl. PARTITION BY / CASE conditions), nothing from WHERE/ON/ORDER BY. " + TRUST,
        design="2/C17"),
    "C18": dict(
        category="model_checking", engine="E2",
        technique="explicit-state BFS over operation histories on the real MappingSchema, reference-model agreement on every transition",
        text="Every history of add_table/lookup operations up to the length bound over a small universe of catalogs, "
             "dbs, tables, spellings and column specs is executed on a real MappingSchema; each history ending in a lookup "
             "must answer like a fresh schema given only the registrations and like a schema constructed from the final "
             "mapping. Exhaustive within the bound, so any cache that survives a registration is found with its shortest history.",
        note="bounds: history length 3 (quick) / 4 (thorough) over the alphabets printed in the evidence; match_depth=False "
             "and `visible` not explored. " + TRUST,
        design="2/C18"),
    "C02": dict(
        category="exploration", engine="E1",
        technique="exhaustive enumeration of common-fragment queries (cost <= k) x 4 dialect pairs x a complete family of small NULL-bearing databases; execution on real SQLite / DuckDB",
        text="Every query of the SQLite/DuckDB common fragment with at most 2 (thorough 3) constructs - arithmetic in every "
             "parenthesisation incl. division, modulo, unary minus; ||; AND/OR/NOT mixes; CASE/COALESCE/NULLIF/IFNULL/IIF/MIN-LEAST; string "
             "functions; CAST; STRFTIME with 10 formats; every join kind; GROUP BY/HAVING/DISTINCT; set operations; subqueries; CTEs; "
             "windows; ORDER BY x ASC/DESC x NULLS FIRST/LAST; LIMIT/OFFSET; QUALIFY, DISTINCT ON, SEMI/ANTI joins on the DuckDB side - is "
             "run on its source engine and its transpilation on the target engine for sqlite->duckdb, duckdb->sqlite and both identity "
             "directions, on every database with <= 1 row per table over the mentioned columns' domains plus three rich multi-row "
             "instances; row multisets and the order of ORDER BY keys must agree.",
        note="source-engine rejections drop the case; constructs whose engine semantics no transpiler could bridge are excluded in "
             "vlib/grammar_q.py with the reason. " + TRUST + "; SQLite 3.40.1, DuckDB 1.5.5",
        design="2/C02"),
    "C03": dict(
        category="model_checking", engine="E1",
        technique="rewrite-system state graph: enumerated queries x every RULES prefix and qualify+single rule; result-equivalence invariant on all small databases (SQLite leads, DuckDB decides)",
        text="Initial states are all queries of the optimizer fragment with at most 2 constructs (1132 queries: every join kind and ON "
             "shape, derived tables / CTEs containing WHERE / GROUP BY / DISTINCT / LIMIT / OFFSET / windows / UNION and referenced once or "
             "twice, correlated and uncorrelated IN / NOT IN / EXISTS / ANY / ALL / scalar subqueries, HAVING, DISTINCT, set operations). "
             "Transitions are every prefix of RULES and qualify followed by each single rule (27 per query; thorough adds ordered rule "
             "pairs as leads). Each distinct reached query text must return the same rows (multiset, ORDER BY key order) and column "
             "names as the initial query: on DuckDB for a rich, a second rich, the all-empty and each-table-empty instances, and on "
             "SQLite for EVERY instance with <= 2 rows per table over {NULL,1,2} (3025 for two tables), SQLite disagreements being "
             "re-run on DuckDB and reported only when DuckDB confirms.",
        note="DuckDB 1.5.5 decides, SQLite 3.40.1 generates leads; OptimizeError is a legitimate refusal. " + TRUST,
        design="2/C03"),
    "C04": dict(
        category="exploration", engine="E1",
        technique="exhaustive enumeration of all strings up to length L over a computed adversarial alphabet x all dialects x kinds x options; tokenizer round-trip oracle",
        text="Every string of length <= 3 (thorough 4) over the 29-atom alphabet computed from all dialects' tokenizers (every quote, "
             "identifier delimiter, escape character, escaped-sequence character, comment marker, control characters, the generator's "
             "line-break sentinel, the sqlglot.meta marker) is placed in a string literal and a quoted identifier in all 34 dialects, and "
             "(length <= 2, thorough 3) embedded in a SELECT, attached as a comment at three positions, and rendered as raw / national "
             "string, under default / pretty / identify options. The generated SQL is tokenized by the same dialect: exactly one payload "
             "token with identical text, unchanged surrounding token types, comments never change other tokens.",
        note="single-token rendering is required; UnsupportedError counts as declared-unsupported. " + TRUST,
        design="2/C04"),
    "C05": dict(
        category="exploration", engine="E1",
        technique="exhaustive enumeration of 1-mutation neighbourhoods, prefixes, token soups, short character strings and pumping families; deterministic step-budget (sys.monitoring) termination oracle",
        text="All single-token mutants (delete/duplicate/swap, and insertion of each of 43 menu tokens for the simplest seeds) and all "
             "prefixes of G_core k<=1 statements and an identity.sql slice, all token soups of length <= 3 over a 43-token menu, all "
             "character strings of length <= 3 over a 36-character alphabet and 25 pumping families are tokenized and parsed under the "
             "error levels, and every returned tree is generated in its own and the base dialect. The outcome must be a return or a "
             "SqlglotError; work is measured by a deterministic step counter (calls + loop back-edges in sqlglot code) against a fixed "
             "quadratic budget, so a non-terminating loop is reported deterministically, and pumping families may at most x5 their "
             "steps when doubled.",
        note="quick: 8 dialects, thorough: all 34; nesting judged to depth 32; leaks already present on the pinned tree are listed as "
             "known findings keyed by (phase, exception type, raising function). " + TRUST,
        design="2/C05"),
    "C06": dict(
        category="model_checking", engine="E1",
        technique="exhaustive enumeration of expressions (states) x every observed rewrite step (transitions), truth-table equality under every assignment as invariant; evaluator cross-validated against DuckDB",
        text="Every boolean/integer expression with at most k constructs (k<=2 quick, k<=3 thorough) plus complete focused families "
             "(range pairs, absorption, equality arithmetic, COALESCE comparisons, constant conditions) is simplified under every "
             "flag / dialect / nullability configuration; each individual Simplifier rule invocation that changed its node and the "
             "whole simplify/normalize result are compared with the input under EVERY assignment of NULL/TRUE/FALSE and "
             "NULL/-1..4 (three-valued, NULL distinct from FALSE). normalize results are also checked for normal form by an "
             "independent top-down check. The three-valued evaluator is validated against DuckDB in every run.",
        note="rules are discovered by AST-scanning Simplifier._simplify and wrapped at run time (exit 2 if the seam disappears); "
             "division, strings and dates are outside the alphabet. " + TRUST + "; DuckDB 1.5.5 validates the evaluator",
        design="2/C06"),
    "C07": dict(
        category="exploration", engine="E1",
        technique="exhaustive product / all 1- and 2-option deviations of generator options over enumerated trees; re-parse equivalence oracle",
        text="Trees parsed from the comment-carrying core grammar (k<=1 per dialect; thorough: all of k<=2 in the base dialect), hand-written comment/newline "
             "statements, pretty.sql and identity.sql are generated under the full 6480-combination option product (simplest trees) and "
             "under every single- and two-option deviation from the defaults (all others); each text must re-parse in the same dialect "
             "to the tree of the default output modulo comments / quoting flags / function-name case as the deviating options allow, "
             "contain no line-break sentinel, and carry no comment when comments=False.",
        note="trees whose default output does not re-parse to the same tree are C01's business and skipped here. " + TRUST,
        design="2/C07"),
    "C08": dict(
        category="model_checking", engine="E2",
        technique="explicit-state BFS over histories of public tree operations on real Expression trees, invariants checked in every state",
        text="All histories (length 3 quick / 4 thorough on the smallest tree) of hash/==/set/append/replace/pop/transform/copy/"
             "builder/simplify/optimizer-rule operations at every node path and list index of 8 small parsed trees are executed "
             "on real trees; in every reached state parent/arg_key/index links, single storage, cached-hash == fresh hash and "
             "equality <=> structural equality are checked. A second stream checks the same invariants on every tree returned by "
             "parse_one (identity.sql x dialects) and by each optimizer rule (optimizer fixtures).",
        note="bounds as printed in evidence; inserted values are fresh or re-attached nodes; optimizer rules/simplify only applied "
             "to trees whose SQL re-parses to the same structure; states after an operation raised are not judged. " + TRUST,
        design="2/C08"),
    "C19": dict(
        category="model_checking", engine="E3",
        technique="stateless preemption-bounded schedule exploration of real threads under a controlled scheduler (settrace points, semaphore baton, virtual import locks), fork per execution from a cold process",
        text="Seven (thorough ten) 2-thread harnesses whose bodies are first uses from a cold interpreter and are chosen to collide - the same "
             "dialect twice, subclass vs base, sqlglot.dialects.<Name> vs Dialect.get_or_raise, the same generator class, optimizer lazy "
             "attributes vs from-import vs RULES - are executed under a scheduler that owns every switch: scheduling points are line events "
             "in the lazy-loading / registry / metaclass / dispatch-cache functions and every lock operation (importlib's module locks and "
             "both sqlglot import locks are replaced by scheduler-aware ones). All schedules with 0 preemptions (both start orders) and 1 "
             "preemption (quick: at the first visit of every distinct line per thread; thorough: the first three visits of every line, plus 2 preemptions at "
             "shared-state lines and a 3-thread harness) run to completion; each thread must return its sequential baseline, nothing may "
             "raise or deadlock, each dialect class is constructed once and each module executed once. A violating schedule is replayed "
             "twice and must reproduce identically.",
        note="GIL model at line granularity inside the selected functions; code outside them is atomic; free-running stress is not used. " + TRUST,
        design="2/C19"),
    "C20": dict(
        category="exploration", engine="E1",
        technique="exhaustive enumeration of (source, target) pairs within 2 edits at every position + all pool pairs x matchings x thresholds; exact node-accounting oracle",
        text="For every core-grammar query and 14 deliberately repetitive trees: the tree vs its copy, vs itself, vs every tree reachable "
             "by one edit (rename, literal, alias, join side, operand swap, wrap, unwrap, delete/insert/move of list items) at every "
             "position in both directions, vs every 2-edit target for the repetitive trees, and all ordered pairs of a 44-tree pool, "
             "under default / extreme thresholds and no / root / truthful leaf / crossed matchings, with delta_only False and True: every "
             "non-identifier node is accounted for exactly once, pairs have the same class, delta_only is the full script minus Keep, "
             "the delta is empty exactly for equal trees, inputs keep their fingerprint and carry no stale hash.",
        note="for deliberately wrong (crossed) matchings only the accounting is judged. " + TRUST,
        design="2/C20"),
}

NOT_YET = "check not built yet in this session (design in DESIGN.md section 2); will be claimed once its check exists"


def main():
    checks = []
    for pid, extra in ADDENDA.items():
        if extra not in CHECKS[pid]["text"]:
            CHECKS[pid]["text"] += " " + extra
    for pid in PROPS:
        c = CHECKS.get(pid)
        if not c:
            continue
        checks.append({
            "property_id": pid,
            "quick_cmd": f"./check {pid} --tier quick",
            "thorough_cmd": f"./check {pid} --tier thorough",
            "evidence_file": f"/verif/evidence/{pid}.json",
            "replay_cmd_template": f"./check {pid} --replay {{path}}",
            "engine": c["engine"],
            "level_claimed": {"category": c["category"], "text": c["text"], "design_ref": c["design"]},
            "level_note": c["note"],
            "technique": c["technique"],
        })
    manifest = {
        "version": 1,
        "setup_cmd": "./setup.sh",
        "hooks": {
            "guard": "SQLGLOT_VERIF",
            "enable": "no in-repo hooks: sqlglot is pure Python here, every seam is attached by the harness at run time "
                      "(see DESIGN.md section 3); ./check sets SQLGLOT_VERIF=1 for its own use only",
            "baseline_off_cmd": "cd /repo && /venv/bin/python -m pytest -q -p no:cacheprovider --timeout=900",
            "source_commits": [],
            "add_only": True,
        },
        "engines": [
            {"name": "E1", "path": "vlib/denum.py", "kind_free_text": "deviation-bounded derivation enumerator (exhaustive up to cost k)",
             "serves_properties": [p for p in PROPS if p in CHECKS and CHECKS[p]["engine"] == "E1"]},
            {"name": "E2", "path": "vlib/explore.py + per-check BFS", "kind_free_text": "explicit-state BFS over operation histories on real objects, replay from scratch, canonical-state dedup",
             "serves_properties": [p for p in PROPS if p in CHECKS and CHECKS[p]["engine"] == "E2"]},
            {"name": "E3", "path": "vlib/sched.py", "kind_free_text": "stateless preemption-bounded schedule exploration of real threads (settrace + baton + virtual locks, fork per execution)",
             "serves_properties": [p for p in PROPS if p in CHECKS and CHECKS[p]["engine"] == "E3"]},
            {"name": "E4", "path": "vlib/procmatrix.py", "kind_free_text": "process matrix: hash seeds x call orders, digest comparison",
             "serves_properties": [p for p in PROPS if p in CHECKS and CHECKS[p]["engine"] == "E4"]},
        ],
        "checks": checks,
        "notes": "All checks are bounded exhaustive explorations of the real code (model-checking family); see DESIGN.md. "
                 "known_findings.json lists genuine defects (known / fixed).",
        "not_applicable": [{"property_id": p, "reason": NOT_YET} for p in PROPS if p not in CHECKS],
    }
    with open(os.path.join(ROOT, "MANIFEST.json"), "w") as f:
        json.dump(manifest, f, indent=1)
    print("wrote MANIFEST.json with", len(checks), "checks")


if __name__ == "__main__":
    main()
