#!/usr/bin/env python3
"""Create a scratch worktree of /repo (HEAD) under /tmp/wt/<name> and print the prompt for a seeding sub-agent.
usage: tools/seed_prompt.py <name> <property-id> [focus text]   (the prompt contains ONLY the property text, nothing from /verif)"""
import json, subprocess, sys
name, pid = sys.argv[1], sys.argv[2]
focus = sys.argv[3] if len(sys.argv) > 3 else ""
wt = f"/tmp/wt/{name}"
subprocess.run(f"git -C /repo worktree remove --force {wt}; git -C /repo worktree prune; git -C /repo worktree add -q --detach {wt} HEAD", shell=True, capture_output=True)
prop = next(json.loads(l) for l in open("/verif/properties.jsonl") if json.loads(l)["id"] == pid)
print(f"""You are helping to evaluate a verification harness for the Python library sqlglot (tobymao/sqlglot). Your job is to play the role of a developer who introduces a subtle, realistic regression.

You have your own scratch git worktree of the repository at {wt} (work ONLY there; never touch /repo or /verif, and do not read anything under /verif). Python: /venv/bin/python. IMPORTANT: sqlglot is installed in /venv as an editable install that points at /repo, so to exercise YOUR worktree you must run everything with PYTHONPATH={wt} and cwd={wt}, e.g.  cd {wt} && PYTHONPATH={wt} PYTHONDONTWRITEBYTECODE=1 /venv/bin/python demo.py . Verify with `python -c "import sqlglot; print(sqlglot.__file__)"` that it resolves into {wt}. There is no network.

Here is a semantic property of sqlglot that is supposed to hold (JSON):

{json.dumps(prop, indent=1)}

TASK: make ONE small change to the library source under {wt}/sqlglot/ (a few lines; a plausible refactoring, optimisation, fast path, caching, reordering or 'simplification' a real contributor might submit) that BREAKS this property, while
  (1) the code still imports and the repository's existing test suite still passes completely:  cd {wt} && PYTHONPATH={wt} /venv/bin/python -m pytest -q -p no:cacheprovider -n 6 tests/   must report 1236 passed (same as without your change; run it to be sure, it takes ~2-4 minutes);
  (2) the breakage needs something SPECIFIC to manifest - a particular combination of constructs, a particular dialect pair, an unusual but valid input, a multi-step sequence of operations, a particular interleaving, an earlier call that warms a cache, two cooperating code sites that each look fine alone - NOT something that ordinary everyday use would expose at once;
  (3) the change is in the library code the property is anchored in (see "anchors"), not in tests, and does not simply delete a feature or raise an exception unconditionally.
{('FOCUS: ' + focus) if focus else ''}
Then write {wt}/demo.py : a small self-contained program (it may import sqlglot, sqlite3, duckdb which are installed in /venv) that exits 0 on the ORIGINAL code and exits non-zero (assertion failure with a clear message) WITH your change, demonstrating the violated property on a concrete input / sequence / schedule. Check both: run demo.py with your change (must fail), then `git stash` / `git diff > /tmp/x.diff; git apply -R` to test without (must pass), then restore your change. Leave the worktree with your change applied (uncommitted, in the working tree) and demo.py present. Do not commit.

Finally reply with: the files/lines changed, a 2-3 sentence explanation of why it breaks the property and what is needed for it to manifest, the exact pytest summary line you observed with the change, and the demo outcomes with/without the change. Be creative: prefer breakages that hide in interactions over obvious ones. If your first idea makes an existing test fail, pick another idea rather than editing tests.""")
