#!/venv/bin/python
"""Remove status=known entries of a property that the given evidence runs did not hit.
usage: tools/prune_findings.py C16   (reads evidence/C16.json written by the latest run; run the deepest tier first)"""
import json, os, sys
ROOT = os.path.dirname(os.path.dirname(os.path.abspath(__file__)))
pid = sys.argv[1]
ev = json.load(open(os.path.join(ROOT, "evidence", f"{pid}.json")))
if ev.get("tier") != "thorough" and "--force" not in sys.argv:
    sys.exit("refusing: the latest evidence of %s is from the %s tier; thorough-only findings would be dropped (use --force after checking)" % (pid, ev.get("tier")))
hit = set(ev["coverage"].get("known_findings_hit", {}))
path = os.path.join(ROOT, "known_findings.json")
known = json.load(open(path))
keep = [e for e in known if not (e["property"] == pid and e.get("status") == "known" and e["signature"] not in hit)]
print("removed", len(known) - len(keep), "unhit entries of", pid)
json.dump(keep, open(path, "w"), indent=1)
