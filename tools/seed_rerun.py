#!/venv/bin/python
"""Re-validate every kept seeded change against the CURRENT checks and the CURRENT /repo HEAD.

For each seeded/<id>/: a scratch worktree of /repo at HEAD (outside /repo and /verif) gets patch.diff applied; the checks that
detected it are run against that worktree (VERIF_REPO), sequentially; the outcome is written to meta.json["revalidated"].
/repo itself is never touched. usage: tools/seed_rerun.py [--jobs N] [id-prefix ...]"""
import glob, json, os, subprocess, sys, time

ROOT = os.path.dirname(os.path.dirname(os.path.abspath(__file__)))
args = [a for a in sys.argv[1:] if not a.startswith("--")]
jobs = None
if "--jobs" in sys.argv:
    jobs = sys.argv[sys.argv.index("--jobs") + 1]
    args = [a for a in args if a != jobs]
WT = "/tmp/wt/rr"


def sh(cmd, cwd=None, env=None):
    return subprocess.run(cmd, shell=True, cwd=cwd, env=env, capture_output=True, text=True)


head = sh("git -C /repo rev-parse --short HEAD").stdout.strip()
summary = []
for d in sorted(glob.glob(os.path.join(ROOT, "seeded", "S*", ""))):
    sid = os.path.basename(d.rstrip("/"))
    if args and not any(sid.startswith(a) for a in args):
        continue
    meta = json.load(open(d + "meta.json"))
    checks = meta.get("detected_by") or meta.get("checks_run") or [meta["property"]]
    sh(f"git -C /repo worktree remove --force {WT}")
    sh("git -C /repo worktree prune")
    r = sh(f"git -C /repo worktree add -q --detach {WT} HEAD")
    if r.returncode:
        print("cannot create worktree", r.stderr[:200]); sys.exit(2)
    a = sh(f"git apply {d}patch.diff", cwd=WT)
    if a.returncode:
        a = sh(f"git apply --3way {d}patch.diff", cwd=WT)
    out = {"repo_head": head, "applies": a.returncode == 0, "checks": {}}
    if a.returncode == 0:
        env = dict(os.environ, VERIF_REPO=WT)
        for c in checks:
            t = time.time()
            r = sh(f"./check {c}" + (f" --jobs {jobs}" if jobs else ""), cwd=ROOT, env=env)
            v = [l for l in r.stdout.splitlines() if l.startswith("VIOLATION")]
            out["checks"][c] = {"exit": r.returncode, "violations": len(v), "wall_s": round(time.time() - t)}
    out["detected"] = any(x["exit"] == 1 and x["violations"] for x in out["checks"].values())
    meta["revalidated"] = out
    json.dump(meta, open(d + "meta.json", "w"), indent=1)
    line = f"{sid}: applies={out['applies']} detected={out['detected']} " + " ".join(f"{c}:{x['exit']}/{x['violations']}/{x['wall_s']}s" for c, x in out["checks"].items())
    print(line, flush=True)
    summary.append(line)
sh(f"git -C /repo worktree remove --force {WT}")
sh("git -C /repo worktree prune")
print("done:", sum("detected=True" in l for l in summary), "of", len(summary), "detected")
