#!/venv/bin/python
"""Detection demo helper: apply one textual mutation to /repo, run checks, revert.

usage: tools/mutate.py <file under /repo> <old text> <new text> <check ids...> [--tests <pytest args>]
Prints per check: exit code and number of VIOLATION lines. Always restores the file.
"""
import subprocess, sys, os, time

def main():
    args = sys.argv[1:]
    tests = None
    if "--tests" in args:
        i = args.index("--tests")
        tests = args[i + 1:]
        args = args[:i]
    path, old, new, *checks = args
    full = os.path.join("/repo", path)
    src = open(full).read()
    n = src.count(old)
    if n != 1:
        print(f"mutation site matches {n} times, need exactly 1"); sys.exit(2)
    open(full, "w").write(src.replace(old, new))
    try:
        if tests is not None:
            r = subprocess.run(["/venv/bin/python", "-m", "pytest", "-q", "-p", "no:cacheprovider", "-x", "-n", "8"] + tests,
                               cwd="/repo", capture_output=True, text=True, env={**os.environ, "PYTHONDONTWRITEBYTECODE": "1"})
            print("tests:", r.stdout.strip().splitlines()[-1] if r.stdout.strip() else r.stderr[-300:])
        for c in checks:
            t = time.time()
            r = subprocess.run(["./check", c], cwd="/verif", capture_output=True, text=True)
            v = [l for l in r.stdout.splitlines() if l.startswith("VIOLATION")]
            sigs = [l.strip() for l in r.stdout.splitlines() if l.strip().startswith("signature:")]
            print(f"{c}: exit={r.returncode} violations={len(v)} wall={time.time()-t:.0f}s")
            for s in sigs[:4]:
                print("   ", s[:200])
            if r.returncode not in (0, 1):
                print(r.stderr[-1500:])
    finally:
        open(full, "w").write(src)
        subprocess.run(["git", "-C", "/repo", "status", "--short"])

main()
