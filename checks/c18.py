"""C18 - schema lookups always reflect the current registrations.

Explicit-state BFS over operation histories on real MappingSchema objects (replay from scratch).
Every transition whose last operation is a lookup is judged against
  ref1: a fresh MappingSchema that received only the history's add_table calls (no earlier lookup)
  ref2: a MappingSchema constructed from (a deep copy of) the final mapping.
"""
from __future__ import annotations

import copy
import itertools

from vlib.run import Ctx, HarnessError, sample_every

from sqlglot import exp
from sqlglot.dialects.dialect import Dialect
from sqlglot.errors import SchemaError
from sqlglot.schema import MappingSchema

COLSPECS_FULL = [
    None,
    {"a": "INT"},
    {"b": "TEXT"},
    {"a": "TEXT"},
    "a:int,b:text",
    ["a", "b"],
    {"T": "INT"},
    # the same columns and types in two orders: re-registering a table in another column order is an update (star expansion follows it)
    {"a": "INT", "b": "TEXT"},
    {"b": "TEXT", "a": "INT"},
]
# the last spec names a column like a table ("T"): table-name and column-name normalisation share caches
COLSPECS_QUICK = [None, {"a": "INT"}, {"b": "TEXT"}, {"a": "INT", "b": "TEXT"}, {"b": "TEXT", "a": "INT"}]

KINDS_FULL = ["names", "type_a", "type_b", "has_a", "has_b", "has_T", "find_TF", "find_TT", "find_FF", "find_FT", "names_tbl"]
KINDS_QUICK = ["names", "type_a", "find_FT"]


def q(name: str, dialect: str) -> str:
    return exp.to_identifier(name, quoted=True).sql(dialect=dialect or None)


def universe(depth: int, dialect: str, quick: bool):
    """(add names, lookup names) for a schema of nesting depth `depth`."""
    tables_add = ["t", "T", q("t", dialect), "u"]
    tables_look = ["t", "T", q("t", dialect), q("T", dialect), "u", "x"]
    dbs = ["d1", "d2"]
    cats = ["c1", "c2"]
    if depth == 1:
        adds = tables_add
        looks = tables_look + ["d1.t"]
    elif depth == 2:
        adds = [f"{d}.{t}" for d in dbs for t in tables_add]
        if quick:
            adds = [f"d1.{t}" for t in tables_add] + ["d2.t", "d2.u"]
        looks = tables_look + [f"{d}.{t}" for d in dbs for t in ("t", q("t", dialect), "u")] + ["c1.d1.t", "D1.t"]
        if quick:
            looks = ["t", "T", q("t", dialect), "u", "x", "d1.t", "d2.t", "d1.u", "d1." + q("t", dialect), "c1.d1.t"]
    else:
        adds = [f"{c}.{d}.{t}" for c in cats for d in dbs for t in ("t", q("t", dialect), "u")]
        looks = ["t", q("t", dialect), "u", "x", "d1.t", "d2.t", "d1.u", "c1.d1.t", "c2.d1.t", "c1.d2.t", "c1.d1.u", "c1.d1." + q("t", dialect)]
        if quick:
            adds = ["c1.d1.t", "c2.d1.t", "c1.d2.t", "c1.d1.u", "c1.d1." + q("t", dialect)]
            looks = ["t", q("t", dialect), "u", "d1.t", "d2.t", "c1.d1.t", "c2.d1.t"]
    return adds, looks


def initial_mappings(depth: int):
    base = {"t": {"a": "INT"}}
    if depth == 2:
        base = {"d1": base}
    elif depth == 3:
        base = {"c1": {"d1": base}}
    return [("empty", None), ("populated", base)]


def fresh(cfg) -> MappingSchema:
    dialect, depth, normalize, init_name, init_map = cfg[:5]
    return MappingSchema(copy.deepcopy(init_map), dialect=dialect or None, normalize=normalize)


def norm_value(v):
    if isinstance(v, exp.Expr):
        return v.sql()
    if isinstance(v, dict):
        return tuple((k, norm_value(x)) for k, x in v.items())
    if isinstance(v, (list, tuple)):
        return tuple(norm_value(x) for x in v)
    return v


def apply(schema: MappingSchema, op, colspecs, dialect):
    """Apply one operation; return a hashable observation (value or exception type)."""
    try:
        if op[0] == "add":
            _, name, ci = op
            schema.add_table(name, copy.deepcopy(colspecs[ci]))
            return None
        if op[0] == "add_nf":
            _, name, ci = op
            schema.add_table(name, copy.deepcopy(colspecs[ci]), normalize=False)
            return None
        _, kind, name = op
        if kind == "names":
            return norm_value(schema.column_names(name))
        if kind == "names_tbl":
            return norm_value(schema.column_names(exp.to_table(name, dialect=dialect or None)))
        if kind == "names_nf":
            return norm_value(schema.column_names(name, normalize=False))
        if kind in ("hasq_Foo", "hasu_Foo", "hasq_foo", "typeq_Foo", "typeu_Foo"):
            # the column given as an Identifier OBJECT, quoted or not (the caches are keyed by the name's text)
            ident = exp.to_identifier("foo" if kind.endswith("_foo") else "Foo", quoted=kind[3] == "q" if kind.startswith("has") else kind[4] == "q")
            if kind.startswith("has"):
                return schema.has_column(name, exp.Column(this=ident))
            return norm_value(schema.get_column_type(name, exp.Column(this=ident)))
        if kind in ("names_objq", "names_obju"):
            # the table given as a Table OBJECT whose identifier carries the quoted flag (not a string to be parsed)
            return norm_value(schema.column_names(exp.Table(this=exp.to_identifier(name, quoted=kind.endswith("q")))))
        if kind == "has_Foo":
            return schema.has_column(name, "Foo")
        if kind == "has_Foo_nf":
            return schema.has_column(name, "Foo", normalize=False)
        if kind == "type_Foo":
            return norm_value(schema.get_column_type(name, "Foo"))
        if kind.startswith("type_"):
            return norm_value(schema.get_column_type(name, kind[-1]))
        if kind.startswith("has_"):
            return schema.has_column(name, kind[-1])
        if kind.startswith("find_"):
            table = schema._normalize_table(name)
            return norm_value(
                schema.find(table, raise_on_missing=kind[5] == "T", ensure_data_types=kind[6] == "T")
            )
        raise HarnessError(f"unknown op {op}")
    except (SchemaError, ValueError) as e:
        return ("EXC", type(e).__name__)


def canon(s: MappingSchema):
    def tkey(k):
        return tuple(x.sql() if isinstance(x, exp.Expr) else repr(x) for x in k)

    return (
        repr(s.mapping),
        repr(s.mapping_trie),
        tuple(sorted((tkey(k), repr(norm_value(v))) for k, v in s._find_cache.items())),
        tuple(sorted(tkey(k) for k in s._normalized_table_cache)),
        tuple(sorted(repr(k) for k in s._normalized_name_cache)),
        tuple(sorted(s._type_mapping_cache)),
        s._depth,
        s._supported_table_args,
    )


def ref_from_mapping(real: MappingSchema, cfg) -> MappingSchema:
    dialect, depth, normalize = cfg[:3]
    m = MappingSchema(copy.deepcopy(real.mapping), dialect=dialect or None, normalize=False)
    m.normalize = normalize
    return m


def run_history(cfg, hist, colspecs):
    s = fresh(cfg)
    obs = None
    for op in hist:
        obs = apply(s, op, colspecs, cfg[0])
    return s, obs


REF3 = [None]


def judge(cfg, hist, colspecs, memo):
    """hist ends with a lookup. Returns (real_obs, ref1_obs, ref2_obs, real_schema)."""
    real, obs = run_history(cfg, hist, colspecs)
    adds = tuple(op for op in hist[:-1] if op[0] in ("add", "add_nf"))
    key = (adds, hist[-1])
    if key not in memo:
        r1, o1 = run_history(cfg, adds + (hist[-1],), colspecs)
        r2 = ref_from_mapping(real, cfg)
        o2 = apply(r2, hist[-1], colspecs, cfg[0])
        # ref3: only the LAST registration of every table spelled the same way (an earlier registration of the same spelling that a
        # later one with columns overrides is left out) - independent of how add_table treats a table it already knows
        last_only = tuple(op for i, op in enumerate(adds)
                          if not any(l[0] == op[0] and l[1] == op[1] and colspecs[l[2]] is not None for l in adds[i + 1:]))
        o3 = o1 if last_only == adds else run_history(cfg, last_only + (hist[-1],), colspecs)[1]
        memo[key] = (o1, o2, o3)
    o1, o2, o3 = memo[key]
    REF3[0] = o3
    return obs, o1, o2, real


def configs(quick: bool):
    """(dialect, depth, normalize, init_name, init_map, alphabet kind, max history length)"""
    out = []
    if quick:
        for dialect in ["", "snowflake", "mysql", "bigquery"]:
            for depth in (1, 2, 3):
                if dialect == "bigquery" and depth != 2:
                    continue  # BigQuery's table-specific identifier rules: one depth is enough in quick
                for normalize in (True, False):
                    if normalize is False and dialect not in ("", "snowflake"):
                        continue
                    for init_name, init_map in initial_mappings(depth):
                        out.append((dialect, depth, normalize, init_name, init_map, "small", 3))
        return out
    # thorough: (A) the small alphabet at length 4 in the base dialect (depth 1: both initial mappings, depth 2: the empty one),
    # (B) the full alphabet at length 3 (base depth 1 and 2, snowflake depth 1), (C) the small alphabet at length 3 in every
    # remaining dialect / depth / normalize setting
    # (sized to ~30 M histories, about 20 minutes on 16 cores: the first sizing - both dialects, all depths - was 124 M and did
    #  not finish in 90 minutes)
    for depth in (1, 2):
        for i, (init_name, init_map) in enumerate(initial_mappings(depth)):
            if depth == 1 or i == 0:
                out.append(("", depth, True, init_name, init_map, "small", 4))
    for dialect, depth in (("", 1), ("snowflake", 1), ("", 2)):
        for i, (init_name, init_map) in enumerate(initial_mappings(depth)):
            if (dialect, depth) == ("", 1) or i == 0:
                out.append((dialect, depth, True, init_name, init_map, "full", 3))
    for dialect in ["", "snowflake", "mysql", "bigquery", "duckdb"]:
        for depth in (1, 2, 3):
            for normalize in (True, False):
                if normalize is False and dialect not in ("", "snowflake"):
                    continue
                for init_name, init_map in initial_mappings(depth):
                    out.append((dialect, depth, normalize, init_name, init_map, "small", 3))
    return out


def alphabet(cfg, quick=None):
    dialect, depth = cfg[0], cfg[1]
    small = cfg[5] == "small"
    colspecs = list(COLSPECS_QUICK if small else COLSPECS_FULL)
    kinds = list(KINDS_QUICK if small else KINDS_FULL)
    adds, looks = universe(depth, dialect, small)
    ops = [("add", n, ci) for n in adds for ci in range(len(colspecs))]
    ops += [("look", k, n) for n in looks for k in kinds]
    if depth == 1:
        # per-call normalize=False (the schema-level setting stays) with a case-bearing column name: the
        # name / table normalisation caches are keyed by the normalize flag
        colspecs.append({"Foo": "INT"})
        ci = len(colspecs) - 1
        ops += [("add", "t", ci), ("add", "T", ci), ("add_nf", "t", ci), ("add_nf", "T", ci)]
        ops += [("look", k, n) for n in ("t", "T") for k in ("has_Foo", "has_Foo_nf", "type_Foo", "names_nf", "hasq_Foo", "hasu_Foo", "hasq_foo", "typeq_Foo", "typeu_Foo",
                                                               "names_objq", "names_obju")]
    return ops, colspecs


def explore(cfg, first_ops, ops, colspecs, max_len):
    """BFS over histories starting with one of first_ops; dedup by canonical state."""
    stats = {"transitions": 0, "judged": 0, "nontrivial": 0, "violations": [], "states": 0, "samples": [],
             "outcomes": set(), "ref_disagree": 0}
    memo: dict = {}
    seen = set()
    frontier = []
    for op in first_ops:
        frontier.append((op,))
    depth = 1
    while frontier and depth <= max_len:
        nxt = []
        for hist in frontier:
            stats["transitions"] += 1
            last = hist[-1]
            if last[0] == "look":
                obs, o1, o2, real = judge(cfg, hist, colspecs, memo)
                stats["judged"] += 1
                stats["outcomes"].add(hash((obs,)) & 0xFFFFFFFF)
                lookups_before = any(op[0] == "look" for op in hist[:-1])
                is_add = lambda o: o[0] in ("add", "add_nf")
                if lookups_before:
                    # non-trivial: an earlier lookup precedes an add that changes this answer
                    for i, op in enumerate(hist[:-1]):
                        if is_add(op) and any(p[0] == "look" for p in hist[:i]):
                            before = tuple(p for p in hist[:i] if is_add(p))
                            kb = ("before", before, last)
                            if kb not in memo:
                                _, ob = run_history(cfg, before + (last,), colspecs)
                                memo[kb] = (ob, None)
                            if memo[kb][0] != o1:
                                stats["nontrivial"] += 1
                                break
                if o1 != o2:
                    stats["ref_disagree"] += 1
                    what = "schema built by add_table answers differently from a schema constructed from the same final mapping"
                    sig = f"C18|construct|{cfg[0] or 'base'}|{shape(hist, only_adds=True)}|{show(o1)}!={show(o2)}"
                    stats["violations"].append(
                        {"signature": sig, "what": what,
                         "case": {"cfg": cfg_json(cfg), "history": [list(op) for op in hist if op[0] in ("add", "add_nf") or op is last],
                                  "colspecs": colspecs, "add_only": show(o1), "from_mapping": show(o2), "kind": "construct"}})
                elif REF3[0] != o1:
                    what = (f"after {describe(hist)} the lookup answers {show(o1)}; a schema that only received the last registration of "
                            f"each table answers {show(REF3[0])}")
                    sig = f"C18|reregistration|{shape(hist, only_adds=True)}|{kind_of(o1)}->{kind_of(REF3[0])}"
                    stats["violations"].append(
                        {"signature": sig, "what": what,
                         "case": {"cfg": cfg_json(cfg), "history": [list(op) for op in hist if op[0] in ("add", "add_nf") or op is last],
                                  "colspecs": colspecs, "actual": show(o1), "expected": show(REF3[0]), "kind": "reregistration"}})
                elif obs != o1:
                    what = (f"after {describe(hist)} the lookup answers {show(obs)}; a fresh schema with the same "
                            f"registrations answers {show(o1)}")
                    sig = f"C18|stale|{shape(hist)}|{kind_of(obs)}->{kind_of(o1)}"
                    stats["violations"].append(
                        {"signature": sig, "what": what,
                         "case": {"cfg": cfg_json(cfg), "history": [list(op) for op in hist], "colspecs": colspecs,
                                  "actual": show(obs), "expected": show(o1), "kind": "stale"}})
            else:
                real, _ = run_history(cfg, hist, colspecs)
            if depth < max_len:
                k = canon(real)
                if k not in seen:
                    seen.add(k)
                    for op in ops:
                        # a history ending in add_table is not judged and, at the last level, not
                        # extended either, so it is not generated there
                        if depth + 1 < max_len or op[0] == "look":
                            nxt.append(hist + (op,))
            if len(stats["samples"]) < 3 and depth == max_len and last[0] == "look" and stats["transitions"] % 9973 == 1:
                stats["samples"].append({"cfg": cfg_json(cfg), "history": [list(o) for o in hist]})
        frontier = nxt
        depth += 1
    stats["states"] = len(seen)
    stats["outcomes"] = set(stats["outcomes"])
    return stats


def kind_of(o):
    if isinstance(o, tuple) and o and o[0] == "EXC":
        return o[1]
    if o is None or o == () or o is False or o == "UNKNOWN":
        return "absent"
    return "value"


def show(o):
    return repr(o)


def cfg_json(cfg):
    return {"dialect": cfg[0], "depth": cfg[1], "normalize": cfg[2], "init": cfg[3], "init_map": cfg[4], "alphabet": cfg[5]}


def shape(hist, only_adds=False):
    """Abstract shape of a history: op kinds + relation of names to the final lookup's name."""
    last = hist[-1]
    target = last[2]
    parts = []
    for op in hist[:-1]:
        if op[0] in ("add", "add_nf"):
            rel = name_relation(op[1], target)
            parts.append(f"{op[0]}[{rel},{'cols' if op[2] else 'nocols'}]")
        elif not only_adds:
            rel = name_relation(op[2], target)
            parts.append(f"look[{rel}]")
    parts.append("look" if not only_adds else f"look:{last[1]}")
    return ">".join(parts)


def _bare(name):
    return [p.strip('"`').lower() for p in name.split(".")]


def name_relation(a: str, b: str) -> str:
    if a == b:
        return "same"
    pa, pb = _bare(a), _bare(b)
    if pa == pb:
        return "respelled"
    if len(pa) != len(pb) and (pa[-len(pb):] == pb or pb[-len(pa):] == pa):
        return "suffix"
    if pa[-1] == pb[-1]:
        return "sametable"
    return "other"


def describe(hist):
    out = []
    for op in hist:
        if op[0] in ("add", "add_nf"):
            out.append(f"add_table({op[1]!r}, colspec#{op[2]}{', normalize=False' if op[0] == 'add_nf' else ''})")
        else:
            out.append(f"{op[1]}({op[2]!r})")
    return "; ".join(out)


def worker(shard, nshards, units, quick, max_len_unused):
    res = {"transitions": 0, "judged": 0, "nontrivial": 0, "violations": [], "states": 0, "samples": [],
           "outcomes": set(), "ref_disagree": 0, "units": 0}
    for i, (cfg, first) in enumerate(units):
        if i % nshards != shard:
            continue
        ops, colspecs = alphabet(cfg, quick)
        st = explore(cfg, [first], ops, colspecs, cfg[6])
        for k in ("transitions", "judged", "nontrivial", "states", "ref_disagree"):
            res[k] += st[k]
        res["violations"] += st["violations"][:200]
        res["samples"] += st["samples"][:1]
        res["outcomes"] |= st["outcomes"]
        res["units"] += 1
    res["samples"] = res["samples"][:4]
    # keep one violation per signature per shard (first = shortest history)
    seen = {}
    for v in res["violations"]:
        if v["signature"] in seen:
            seen[v["signature"]]["count"] += 1
        else:
            v["count"] = 1
            seen[v["signature"]] = v
    res["violations"] = list(seen.values())
    return res


def run(ctx: Ctx) -> None:
    quick = ctx.quick
    cfgs = configs(quick)
    max_len = max(c[6] for c in cfgs)
    units = []
    for cfg in cfgs:
        ops, _ = alphabet(cfg, quick)
        for op in ops:
            units.append((cfg, op))
    # interleave so every worker gets a mix of cheap and expensive units
    res = ctx.run_shards(worker, ctx.jobs * 4, units, quick, max_len)
    alph = {f"{c[0] or 'base'}/d{c[1]}/{c[5]}/len{c[6]}": len(alphabet(c, quick)[0]) for c in cfgs}
    ctx.evidence(
        "model_checking",
        {
            "states": res["states"],
            "transitions": res["transitions"],
            "traces_validated_against_impl": res["judged"],
            "evaluations": res["judged"],
            "distinct_nontrivial": res["nontrivial"],
            "rule": "BFS over all operation histories (add_table x names x column specs; column_names/get_column_type/"
                    "has_column/find x fully/partially/over-qualified and respelled names) up to max_history_len on "
                    "real MappingSchema objects, one BFS per (config, first op), states deduplicated by "
                    "(mapping, trie, all caches, _depth, _supported_table_args). Every history ending in a lookup is "
                    "compared with a fresh schema given only the add_table calls and with a schema constructed from "
                    "the final mapping. non-trivial = histories where a lookup precedes an add_table that changes "
                    "the final lookup's reference answer.",
            "max_history_len": max_len,
            "configs": len(cfgs),
            "alphabet_sizes": alph,
            "distinct_outcomes": len(res["outcomes"]),
            "ref1_ref2_disagreements": res["ref_disagree"],
            "exhaustive": True,
            "samples": res["samples"] or [{"note": "no sample captured"}],
        },
        [
            "match_depth=False and the `visible` mapping are outside the alphabet",
            "a schema 'freshly constructed from the final mapping' is MappingSchema(deepcopy(mapping), normalize=False) "
            "with the normalize flag restored afterwards (the mapping is already normalised)",
            "exception messages are not compared, only exception types",
        ],
    )


def replay(ctx: Ctx, case: dict) -> bool:
    c = case["cfg"]
    cfg = (c["dialect"], c["depth"], c["normalize"], c["init"], c["init_map"], c.get("alphabet", "small"), 3)
    colspecs = case["colspecs"]
    hist = tuple(tuple(op) for op in case["history"])
    obs, o1, o2, _ = judge(cfg, hist, colspecs, {})
    print("history :", describe(hist))
    print("actual  :", show(obs))
    print("ref add-only :", show(o1))
    print("ref from-mapping:", show(o2))
    print("ref last-registration-only:", show(REF3[0]))
    if case.get("kind") == "construct":
        return o1 != o2
    if case.get("kind") == "reregistration":
        return REF3[0] != o1
    return obs != o1
