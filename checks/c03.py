"""C03 - the optimizer never changes what a query returns.

A rewrite system explored as a graph: states = distinct query texts reached from every G_exec (+optimizer
extras) query with cost <= k by (T1) each prefix of RULES and (T2) qualify followed by each single rule;
thorough adds (T3) qualify followed by every ordered pair of rules (leads only). Invariant: same rows
(multiset; order of ORDER BY keys) and same output column names as the initial query on every database.
SQLite runs ALL databases with <= 2 rows per table as a lead generator; DuckDB (the engine the property
names) decides: every SQLite disagreement is re-run on DuckDB and reported only if confirmed, and DuckDB
itself runs a fixed family of instances for every state."""
from __future__ import annotations

from vlib.paths import SQLGLOT
import inspect
import logging

import sqlglot
from sqlglot import exp
from sqlglot.errors import OptimizeError, SqlglotError
from sqlglot.optimizer import optimizer as opt
from sqlglot.schema import ensure_schema

from vlib import oracle_engines as oe
from vlib.grammar_exec import SCHEMA, queries
from vlib.run import Ctx

DOMAIN = {"INT": (None, 1, 2)}
RICH = {"x": [(1, 1), (1, 1), (2, None), (None, 2), (None, None), (2, 2), (3, 1)], "y": [(1, 1), (1, 2), (None, 1), (2, None), (4, 4), (2, 2), (2, 2)]}
RICH2 = {"x": [(1, 2), (2, 1), (2, 2), (None, 1)], "y": [(2, 1), (2, 1), (1, None), (3, 3)]}


def apply_rules(tree, rules, schema):
    possible = {"db": None, "catalog": None, "schema": schema, "dialect": "duckdb", "sql": None, "isolate_tables": True,
                "quote_identifiers": False}
    out = tree.copy()
    for rule in rules:
        params = inspect.getfullargspec(rule).args
        out = rule(out, **{p: possible[p] for p in params if p in possible})
    return out


def variants(tree, thorough):
    """(label, rule-name tuple, optimized tree or exception)"""
    schema = ensure_schema(SCHEMA, dialect="duckdb")
    R = list(opt.RULES)
    names = [r.__name__ for r in R]
    out = []
    for i in range(1, len(R) + 1):
        out.append((f"prefix:{i}:{names[i - 1]}", R[:i]))
    for r in R[1:]:
        out.append((f"qualify+{r.__name__}", [R[0], r]))
    if thorough:
        for r1 in R[1:]:
            for r2 in R[1:]:
                if r1 is not r2:
                    out.append((f"T3:qualify+{r1.__name__}+{r2.__name__}", [R[0], r1, r2]))
    res = []
    for label, rules in out:
        try:
            res.append((label, apply_rules(tree, rules, schema), None))
        except OptimizeError as e:
            res.append((label, None, e))
        except RecursionError:
            continue
        except Exception as e:
            res.append((label, None, e))
    return res


def frame(exc):
    import traceback

    for fr in reversed(traceback.extract_tb(exc.__traceback__)):
        if fr.filename.startswith(SQLGLOT):
            return f"{fr.filename.rsplit('/', 1)[-1]}:{fr.name}"
    return "?"


def worker(shard, nshards, qs, thorough, r):
    logging.disable(logging.CRITICAL)
    res = {"states": 0, "transitions": 0, "nontrivial": 0, "duck_pairs": 0, "sqlite_pairs": 0, "leads_unconfirmed": 0,
           "refused": 0, "viol": {}, "samples": [], "t3_leads": [], "queries": 0}
    duck = oe.Duck(SCHEMA, {})
    inst_cache = {}

    def sqlite_dbs(tables, rows=None):
        key = (tuple(tables), rows or r)
        if key not in inst_cache:
            inst_cache[key] = list(oe.instances(SCHEMA, tables, DOMAIN, rows or r))
        return inst_cache[key]

    def duck_dbs(tables):
        full = [RICH, RICH2, {t: [] for t in SCHEMA}]
        for t in tables:
            full.append({k: ([] if k == t else v) for k, v in RICH.items()})
        if thorough:
            full += list(oe.instances(SCHEMA, tables, DOMAIN, 1))
        return full

    def record(sig, sql, vsql, data, msg):
        v = res["viol"].get(sig)
        if v is None:
            res["viol"][sig] = {"sql": sql, "variant": vsql, "data": data, "msg": msg, "count": 1}
        else:
            v["count"] += 1

    def duck_run(sql_text, data):
        duck.reset(SCHEMA, {t: data.get(t, []) for t in SCHEMA})
        return duck.run(sql_text)

    for qi, (cost, sql, tags) in enumerate(qs):
        if qi % nshards != shard:
            continue
        res["queries"] += 1
        try:
            tree = sqlglot.parse_one(sql, read="duckdb")
        except Exception:
            continue
        order_pos = oe.order_positions(tree)
        tables = oe.tables_of(tree, SCHEMA)
        orig_duck = tree.sql("duckdb")
        # distinct states reached
        states = {}
        for label, vt, exc in variants(tree, thorough):
            res["transitions"] += 1
            if exc is not None:
                if isinstance(exc, SqlglotError):
                    res["refused"] += 1
                else:
                    record(f"crash|{type(exc).__name__}|{frame(exc)}", sql, label, None, f"{label} leaked {type(exc).__name__}: {str(exc)[:80]}")
                continue
            try:
                vd = vt.sql("duckdb")
                vs = vt.sql("sqlite")
            except Exception:
                continue
            if vd == orig_duck:
                continue
            states.setdefault(vd, (label, vs))
        res["states"] += 1 + len(states)
        if states:
            res["nontrivial"] += len(states)
        if not states:
            continue
        # reference results on DuckDB
        ddbs = duck_dbs(tables)
        ref = []
        for data in ddbs:
            try:
                ref.append(duck_run(orig_duck, data))
            except oe.EngineError:
                ref.append(None)
        if all(x is None for x in ref):
            continue  # DuckDB does not accept the original: outside the fragment
        # DuckDB decides on its fixed family; SQLite (accelerator) runs EVERY small instance: one database per
        # instance, the original and all rewritten states executed on it
        bad: dict = {}
        for vd, (label, vs) in states.items():
            for data, rr in zip(ddbs, ref):
                if rr is None:
                    continue
                res["duck_pairs"] += 1
                try:
                    names, rows = duck_run(vd, data)
                except oe.EngineError as e:
                    bad[vd] = (data, f"DuckDB rejects the rewritten query: {str(e)[:100]}")
                    break
                why = oe.compare_results(rr[1], rows, order_pos)
                if why is None and [n.lower() for n in names] != [n.lower() for n in rr[0]]:
                    why = f"column names {rr[0]} -> {names}"
                if why:
                    bad[vd] = (data, f"{why}: original {oe.norm_rows(rr[1])[:5]} vs rewritten {oe.norm_rows(rows)[:5]}")
                    break
        try:
            orig_sqlite = tree.sql("sqlite")  # the original is read as DuckDB SQL (NULLs sort last ...): SQLite gets its transpilation
            sqlite_ok = True
        except Exception:
            sqlite_ok = False
        live = {vd: vs for vd, (label, vs) in states.items() if vd not in bad}
        if sqlite_ok and live:
            dead_on_sqlite = set()
            # (quick tier: the three-item join chains and the derived-table family run on every database with <= 1 row per table; NULL extension of
            #  unmatched rows already shows there; the thorough tier uses the full bound)
            for data in sqlite_dbs(tables, 1 if (not thorough and ("chain3" in tags or "dt" in tags)) else None):
                if not live:
                    break
                s = oe.Sqlite({t: SCHEMA[t] for t in tables}, data)
                try:
                    try:
                        rr = s.run(orig_sqlite)
                    except oe.EngineError:
                        break  # SQLite cannot run the original: no leads from this engine
                    for vd, vs in list(live.items()):
                        if vd in dead_on_sqlite:
                            continue
                        res["sqlite_pairs"] += 1
                        try:
                            names, rows = s.run(vs)
                        except oe.EngineError:
                            dead_on_sqlite.add(vd)  # SQLite cannot run the rewritten text: no lead from this engine
                            continue
                        if oe.compare_results(rr[1], rows, order_pos) is not None:
                            try:
                                o = duck_run(orig_duck, data)
                                n2, r2 = duck_run(vd, data)
                            except oe.EngineError:
                                res["leads_unconfirmed"] += 1
                                continue
                            why = oe.compare_results(o[1], r2, order_pos)
                            if why:
                                bad[vd] = (data, f"{why}: original {oe.norm_rows(o[1])[:5]} vs rewritten {oe.norm_rows(r2)[:5]} (found on SQLite, confirmed on DuckDB)")
                                del live[vd]
                            else:
                                res["leads_unconfirmed"] += 1
                finally:
                    s.close()
        # attribution: along the pipeline only the FIRST failing prefix is blamed (later prefixes inherit the damage)
        labels = {vd: label for vd, (label, vs) in states.items()}
        failing = [(labels[vd], vd, data, msg) for vd, (data, msg) in bad.items()]
        prefix_fail = sorted((int(l.split(":")[1]), l, vd, data, msg) for l, vd, data, msg in failing if l.startswith("prefix:"))
        report = []
        if prefix_fail:
            report.append(prefix_fail[0][1:])
            res["inherited"] = res.get("inherited", 0) + len(prefix_fail) - 1
        report += [f for f in failing if not f[0].startswith("prefix:")]
        for label, vd, data, msg in report:
            rule = label.split(":")[-1] if label.startswith("prefix") else label
            if label.startswith("T3:"):
                if len(res["t3_leads"]) < 20:
                    res["t3_leads"].append({"sql": sql, "rules": label, "data": data, "msg": msg})
                continue
            rule = rule.replace("qualify+", "")
            record(f"result|{rule}|{'+'.join(tags)}", sql, vd, data, f"after {label}: {msg}")
        if len(res["samples"]) < 2 and qi % 131 == shard:
            res["samples"].append({"sql": sql, "distinct_states": len(states), "first": next(iter(states))[:160]})
    duck.close()
    res["viol"] = list(res["viol"].items())
    return res


def run(ctx: Ctx) -> None:
    quick = ctx.quick
    k = 2
    qs = list(queries(k, opt_extras=True, engine_extras=True))
    if quick:
        # quick: 192 of the 576 three-item join chains (first item a table or a filtered derived table; second ON on the other
        # tables or on the first item); the thorough tier runs all of them on the full instance bound
        qs = [q_ for q_ in qs if not ({"c3.derived_notnull!", "c3.derived_plain!", "on2.both!"} & set(q_[2]))]
    if not quick:
        qs += [x for x in queries(3, opt_extras=True, engine_extras=True) if x[0] == 3][::6]
    res = ctx.run_shards(worker, ctx.jobs * 4, qs, not quick, 2 if quick else 2)
    viol = {}
    for sig, v in res["viol"]:
        if sig in viol:
            viol[sig]["count"] += v["count"]
        else:
            viol[sig] = v
    keys = list(viol)

    def parts(sig):
        p = sig.split("|")
        return p[1], set(p[2].split("+")) if len(p) > 2 else set()

    for sig in sorted(keys):
        v = viol[sig]
        if sig.startswith("result|"):
            rule, tags = parts(sig)
            if any(o != sig and o.startswith("result|") and parts(o)[0] == rule and parts(o)[1] < tags for o in keys):
                continue
        ctx.violation("C03|" + sig, f"`{v['sql']}` -> `{v['variant'][:300]}` on {v['data']}: {v['msg']}",
                      {"sql": v["sql"], "data": v["data"], "sig": sig}, v["count"])
    ctx.evidence(
        "model_checking",
        {
            "states": res["states"],
            "transitions": res["transitions"],
            "traces_validated_against_impl": res["duck_pairs"],
            "evaluations": res["duck_pairs"] + res["sqlite_pairs"],
            "distinct_nontrivial": res["nontrivial"],
            "rule": f"initial states = {len(qs)} queries (G_exec + optimizer extras, cost <= {k}" + ("" if quick else " + a slice of cost 3") + "); transitions = every "
                    "prefix of RULES and qualify followed by each single rule" + ("" if quick else " (+ T3: qualify followed by every ordered pair of rules, leads only)") +
                    "; states deduplicated by generated DuckDB text; invariant = result equivalence with the initial query. DuckDB runs "
                    "rich / second rich / all-empty / each-table-empty instances" + ("" if quick else " and every instance with <= 1 row per table") +
                    " for every state; SQLite runs EVERY instance with <= 2 rows per table over {NULL,1,2} and its disagreements are "
                    "re-run on DuckDB (reported only if confirmed). non-trivial = states whose text differs from the original.",
            "queries": res["queries"],
            "duckdb_state_instance_pairs": res["duck_pairs"],
            "sqlite_state_instance_pairs": res["sqlite_pairs"],
            "sqlite_leads_not_confirmed_by_duckdb": res["leads_unconfirmed"],
            "optimize_errors_legitimate_refusals": res["refused"],
            "t3_leads_not_violations": res["t3_leads"][:10],
            "exhaustive": True,
            "samples": res["samples"][:3],
        },
        ["DuckDB 1.5.5 decides; SQLite 3.40.1 only generates leads", "T3 (rule pairs in unusual order) disagreements are leads, not violations"],
    )


def replay(ctx: Ctx, case: dict) -> bool:
    logging.disable(logging.CRITICAL)
    tree = sqlglot.parse_one(case["sql"], read="duckdb")
    order_pos = oe.order_positions(tree)
    duck = oe.Duck(SCHEMA, {})
    data = {t: [tuple(r) for r in rows] for t, rows in (case["data"] or {}).items()}
    found = False
    duck.reset(SCHEMA, {t: data.get(t, []) for t in SCHEMA})
    try:
        ref = duck.run(tree.sql("duckdb"))
    except oe.EngineError as e:
        print("original rejected", e)
        return False
    for label, vt, exc in variants(tree, False):
        if exc is not None or vt is None:
            continue
        vd = vt.sql("duckdb")
        try:
            names, rows = duck.run(vd)
        except oe.EngineError as e:
            print(label, "rewritten query rejected:", e)
            found = True
            continue
        why = oe.compare_results(ref[1], rows, order_pos)
        if why:
            print(label, why, oe.norm_rows(ref[1])[:5], oe.norm_rows(rows)[:5])
            print("   ", vd)
            found = True
    return found
