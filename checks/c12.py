"""C12 - serialisation and copying reproduce the tree exactly.

States = trees (G_core parses per dialect, identity.sql, optimizer fixture inputs; each as parsed, after
annotate_types, after qualify; plus trees with hand-placed comments / meta of every JSON kind);
transitions = dump, JSON text round trip, load, pickle (protocols 2..5), copy, deepcopy and their
compositions of length 2. Every transition must return to an equal state: ==, structural fingerprint incl.
public types / comments / meta, same SQL, tree invariants, no shared node; dump is JSON-serialisable and a
fixpoint."""
from __future__ import annotations

import copy
import json
import logging
import pickle

import sqlglot
from sqlglot import exp
from sqlglot.errors import SqlglotError
from sqlglot.optimizer.annotate_types import annotate_types
from sqlglot.optimizer.qualify import qualify
from sqlglot.serde import dump, load

from vlib import corpus, fingerprint as fpm
from vlib.grammar_core import statements
from vlib.run import Ctx

QUICK_DIALECTS = ["", "bigquery", "clickhouse", "duckdb", "mysql", "postgres", "snowflake", "tsql", "spark", "oracle", "sqlite"]
SCHEMA = {"t": {"a": "INT", "b": "INT", "c": "INT"}, "u": {"a": "INT", "b": "INT", "c": "INT"}, "v": {"a": "INT", "b": "INT"}}


def all_dialects():
    return [""] + corpus.all_dialects()


def t_dump_load(t):
    return load(dump(t))


def t_json(t):
    return load(json.loads(json.dumps(dump(t))))


def t_copy(t):
    return t.copy()


def t_deepcopy(t):
    return copy.deepcopy(t)


def mk_pickle(proto):
    def f(t):
        return pickle.loads(pickle.dumps(t, protocol=proto))
    f.__name__ = f"t_pickle{proto}"
    return f


BASIC = [t_dump_load, t_json, t_copy, t_deepcopy] + [mk_pickle(p) for p in (2, 3, 4, 5)]


def transitions(quick):
    out = [(f.__name__[2:], f) for f in BASIC]
    pairs = [(t_copy, t_json), (t_json, t_copy), (t_json, mk_pickle(4)), (mk_pickle(4), t_json), (t_json, t_json),
             (t_deepcopy, t_dump_load), (mk_pickle(2), t_copy)]
    for f, g in pairs:
        out.append((f"{f.__name__[2:]}>{g.__name__[2:]}", (lambda f, g: lambda t: g(f(t)))(f, g)))
    return out


def compare(t, r, dialect, name):
    """list of (code, msg)"""
    try:
        return _compare(t, r, dialect, name)
    except Exception as e:  # the returned object is so broken that inspecting it raises
        return [("exception", f"inspecting the result raises {type(e).__name__}: {str(e)[:60]}")]


def _compare(t, r, dialect, name):
    probs = []
    if r is None:
        return [("none", "result is None")]
    if not (r == t):
        probs.append(("eq", "result != original"))
    if fpm.fingerprint(r, "serde") != fpm.fingerprint(t, "serde"):
        probs.append(("fingerprint", diff_hint(t, r)))
    for d in {dialect or None, None}:
        try:
            a = t.sql(d)
        except Exception:
            continue
        try:
            b = r.sql(d)
        except Exception as e:
            probs.append(("sql", f"result fails to generate: {type(e).__name__}"))
            continue
        if a != b:
            # an arg holding [] that the result lacks (serde drops empty lists) is named in the signature, so that any other
            # cause of differing SQL is a different finding
            lost = sorted({f"{type(n).__name__}.{k}" for n in t.walk() for k, v in n.args.items() if v == [] and type(v) is list}
                          - {f"{type(n).__name__}.{k}" for n in r.walk() for k, v in n.args.items() if v == [] and type(v) is list})
            probs.append(("sql", (f"[emptylist:{'+'.join(lost)}] " if lost else "") + f"{a!r} vs {b!r}"))
    tp = fpm.tree_problems(r)
    if tp:
        probs.append(("invariant", tp[0]))
    if fpm.node_ids(t) & fpm.node_ids(r):
        probs.append(("shared", "result shares a node with the original"))
    return probs


def diff_hint(t, r):
    try:
        return _diff_hint(t, r)
    except Exception as e:
        return f"(diff unavailable: {type(e).__name__})"


def _diff_hint(t, r):
    """First differing node (class, which field)."""
    st, sr = [t], [r]
    while st and sr:
        a, b = st.pop(), sr.pop()
        if type(a) is not type(b):
            return f"class {type(a).__name__} vs {type(b).__name__}"
        if (a.comments or None) != (b.comments or None):
            return f"{type(a).__name__}.comments {a.comments!r} vs {b.comments!r}"
        if (a._meta or None) != (b._meta or None):
            return f"{type(a).__name__}.meta {a._meta!r} vs {b._meta!r}"
        ta, tb = a.type, b.type
        if (ta is None or ta is a) != (tb is None or tb is b) or (ta is not None and ta is not a and tb is not None and fpm.fingerprint(ta, "serde") != fpm.fingerprint(tb, "serde")):
            return f"{type(a).__name__}.type {ta!r:.40} vs {tb!r:.40}"
        ka = {k: v for k, v in a.args.items() if v is not None}
        kb = {k: v for k, v in b.args.items() if v is not None}
        if set(ka) != set(kb):
            return f"{type(a).__name__} args {sorted(ka)} vs {sorted(kb)}"
        for k in ka:
            va, vb = ka[k], kb[k]
            la = va if isinstance(va, list) else [va]
            lb = vb if isinstance(vb, list) else [vb]
            if len(la) != len(lb):
                return f"{type(a).__name__}.{k} length {len(la)} vs {len(lb)}"
            for x, y in zip(la, lb):
                if isinstance(x, exp.Expr) and isinstance(y, exp.Expr):
                    st.append(x)
                    sr.append(y)
                elif x != y or type(x) is not type(y):
                    return f"{type(a).__name__}.{k} value {x!r} ({type(x).__name__}) vs {y!r} ({type(y).__name__})"
    return "?"


def phases(tree, dialect):
    out = [("parsed", tree)]
    d = dialect or None
    try:
        out.append(("annotated", annotate_types(tree.copy(), schema=SCHEMA, dialect=d)))
    except Exception:
        pass
    try:
        q = qualify(tree.copy(), schema=SCHEMA, dialect=d)
        out.append(("qualified", q))
        out.append(("qualified+annotated", annotate_types(q.copy(), schema=SCHEMA, dialect=d)))
    except Exception:
        pass
    return out


def decorated():
    """Trees with hand-placed comments and meta of every JSON kind."""
    out = []
    t = sqlglot.parse_one("SELECT a, b + 1 AS c FROM t WHERE a IN (1, 2)")
    t.selects[0].add_comments(["c1", "c 2"])
    t.args["where"].meta["k_str"] = "v"
    t.selects[1].meta.update({"k_int": 1, "k_float": 1.5, "k_bool": True, "k_none": None, "k_list": [1, "a", None], "k_dict": {"x": [1]}})
    t.meta["empty"] = {}
    out.append(("decorated", t))
    t2 = sqlglot.parse_one("SELECT CAST(a AS DECIMAL(10, 2)), CAST(b AS ARRAY<INT>), x::STRUCT<a INT, b TEXT> FROM t")
    out.append(("types", t2))
    t3 = exp.select("a").from_("t").where(exp.column("a").isin(1, 2)).limit(5)
    t3.set("distinct", exp.Distinct())
    out.append(("built", t3))
    # every member of the DType enum as the target of a cast: bare, with a parameter, nested in ARRAY / as a struct field;
    # user-defined types carry their name in `kind`
    for m in exp.DType:
        kw = {"kind": "my_type"} if m is exp.DType.USERDEFINED else {}
        bare = exp.DataType(this=m, **kw)
        param = exp.DataType(this=m, expressions=[exp.DataTypeParam(this=exp.Literal.number(10))], **kw)
        nested = exp.DataType(this=exp.DType.ARRAY, expressions=[exp.DataType(this=m, **kw)], nested=True)
        sel = exp.select(exp.cast(exp.column("a"), bare), exp.cast(exp.column("b"), param), exp.Cast(this=exp.column("c"), to=nested)).from_("t")
        out.append((f"dtype:{m.name}", sel))
    # classes defined outside the library, some named like a core class, interleaved with their core namesakes in both orders
    # (a class lookup memoised by bare name would hand back whichever was resolved first)
    from vlib import userexprs as ux

    a = lambda: exp.column("a")
    out.append(("user:core_trim_first", exp.select(exp.Trim(this=a())).from_("t")))
    out.append(("user:sub_trim_second", exp.select(ux.Trim(this=a())).from_("t")))
    out.append(("user:sub_coalesce_first", exp.select(ux.Coalesce(this=a(), expressions=[exp.Literal.number(1)])).from_("t")))
    out.append(("user:core_coalesce_second", exp.select(exp.Coalesce(this=a(), expressions=[exp.Literal.number(1)])).from_("t")))
    out.append(("user:new_func", exp.select(ux.MyFunc(this=a(), expressions=[a(), exp.Literal.string("x")])).from_("t")))
    out.append(("user:sub_column_mixed", exp.select(ux.Column(this=exp.to_identifier("a")), exp.column("b"), ux.Trim(this=exp.column("c"))).from_("t")))
    t4 = sqlglot.parse_one("SELECT 1")
    t4.selects[0].replace(exp.Literal.number(2))
    t4.add_comments(["only"])
    out.append(("commented_root", t4))
    return out


def worker(shard, nshards, plan, quick):
    logging.disable(logging.CRITICAL)
    trans = transitions(quick)
    trans_light = [(n, f) for n, f in trans if n in ("dump_load", "json", "pickle4", "copy")]
    res = {"states": 0, "transitions": 0, "viol": {}, "samples": [], "coverage": set(), "classes": set(), "nontrivial": 0}
    idx = 0

    def record(code, name, phase, dialect, sql, msg):
        import re

        shape = re.sub(r"'[^']*'|\"[^\"]*\"|\d+", "_", msg)[:120] if code in ("fingerprint", "invariant") else ""
        if code == "json" and msg.startswith("["):
            shape = msg[1:msg.index("]")]
        if code == "sql" and msg.startswith("[emptylist:"):
            shape = msg[1:msg.index("]")]
        key = (code, name.split(">")[-1] if code != "shared" else name, shape)
        v = res["viol"].get(key)
        if v is None:
            res["viol"][key] = {"sql": sql, "dialect": dialect, "phase": phase, "transition": name, "msg": msg, "count": 1}
        else:
            v["count"] += 1
            if len(sql) < len(v["sql"]):
                v.update(sql=sql, dialect=dialect, phase=phase, transition=name, msg=msg)

    for unit in plan:
        dialect, sqls = unit[0], unit[1]
        light = len(unit) > 2 and unit[2] == "light"
        for sql in sqls:
            idx += 1
            if idx % nshards != shard:
                continue
            if isinstance(sql, tuple):
                trees = [(sql[0], sql[1])]
                sql_text = sql[0]
            else:
                try:
                    tree = sqlglot.parse_one(sql, read=dialect or None)
                except Exception:
                    continue
                trees = phases(tree, dialect) if not light else [("parsed", tree)]
                sql_text = sql
            for phase, t in trees:
                res["states"] += 1
                has_extra = False
                for n in t.walk():
                    res["classes"].add(type(n).__name__)
                    if n.comments or n._meta or n._type is not None:
                        has_extra = True
                    for k, v in n.args.items():
                        for x in (v if isinstance(v, list) else [v]):
                            if x is not None:
                                res["coverage"].add((type(n).__name__, k, type(x).__name__ if not isinstance(x, exp.Expr) else "Expr"))
                if has_extra:
                    res["nontrivial"] += 1
                try:
                    d0 = dump(t)
                    js = json.dumps(d0)
                except Exception as e:
                    # name the offending value and where it sits, so that another unserialisable value is another finding
                    where = "?"
                    try:
                        for n in t.walk():
                            for k, v in list(n.args.items()) + [("<meta>", n._meta)]:
                                for x in (v if isinstance(v, list) else [v]):
                                    if x is None or isinstance(x, exp.Expr):
                                        continue
                                    try:
                                        json.dumps(x if not isinstance(x, exp.DType) else x.value)
                                    except Exception:
                                        where = f"{type(n).__name__}.{k}"
                                        raise StopIteration
                    except StopIteration:
                        pass
                    record("json", "dump", phase, dialect, sql_text, f"[{where}] dump is not JSON-serialisable: {type(e).__name__}: {str(e)[:80]}")
                    continue
                try:
                    if dump(load(json.loads(js))) != d0:
                        record("dump_fixpoint", "dump", phase, dialect, sql_text, "dump(load(json(dump(t)))) != dump(t)")
                except Exception as e:
                    record("exception", "json", phase, dialect, sql_text, f"{type(e).__name__}: {str(e)[:80]}")
                alone = {}   # basic transition -> codes it already produced on this state (compositions do not repeat them)
                for name, f in (trans if not light else trans_light):
                    res["transitions"] += 1
                    parts = name.split(">")
                    inherited = set().union(*(alone.get(p_, set()) for p_ in parts)) if len(parts) > 1 else set()
                    try:
                        r = f(t)
                    except RecursionError:
                        continue
                    except Exception as e:
                        if "exception" not in inherited:
                            record("exception", name, phase, dialect, sql_text, f"{type(e).__name__}: {str(e)[:80]}")
                        alone.setdefault(name, set()).add("exception")
                        continue
                    for code, msg in compare(t, r, dialect, name):
                        alone.setdefault(name, set()).add(code)
                        if code not in inherited:
                            record(code, name, phase, dialect, sql_text, msg)
            if len(res["samples"]) < 2 and idx % 397 == shard:
                res["samples"].append({"dialect": dialect or "base", "sql": sql_text, "phases": [p for p, _ in trees]})
    res["viol"] = list(res["viol"].items())
    return res


def run(ctx: Ctx) -> None:
    quick = ctx.quick
    dialects = QUICK_DIALECTS if quick else all_dialects()
    plan = []
    for d in dialects:
        plan.append((d, [s for c, s, t in statements(d, 1)]))
        if not quick and not d:
            # every pair of constructs (complete k = 2, base dialect), as parsed, under the four basic transitions
            plan.append((d, [s for c, s, t in statements(d, 2) if c == 2], "light"))
    plan.append(("", corpus.identity_sql()))
    # every statement of the repository's dialect tests, parsed by its own dialect (node classes and arg value kinds only
    # dialect-specific syntax produces: user-defined types, COPY / CREATE properties, hints, JSON paths...)
    by_d = {}
    for d, sql in corpus.dialect_test_sql():
        by_d.setdefault(d, []).append(sql)
    for d, sqls in sorted(by_d.items()):
        plan.append((d, sqls))
    for fn in ("optimizer.sql", "qualify_columns.sql", "annotate_types.sql", "annotate_functions.sql", "simplify.sql"):
        for sql, d in corpus.fixture_inputs(fn):
            plan.append((d or "", [sql]))
    res = ctx.run_shards(worker, ctx.jobs * 3, plan, quick)
    # decorated trees in the parent (they hold python objects)
    deco_res = worker(0, 1, [("", [(name, t) for name, t in decorated()])], quick)
    viol = {}
    for k, v in list(res["viol"]) + list(deco_res["viol"]):
        if k in viol:
            viol[k]["count"] += v["count"]
        else:
            viol[k] = v
    for (code, name, shape), v in sorted(viol.items()):
        sig = f"C12|{code}|{name}|{shape}"
        ctx.violation(sig, f"[{v['dialect'] or 'base'}/{v['phase']}] {v['transition']} of `{v['sql']}`: {code}: {v['msg']}",
                      {"dialect": v["dialect"], "sql": v["sql"], "phase": v["phase"], "transition": v["transition"]}, v["count"])
    all_classes = {c.__name__ for c in exp.EXPR_CLASSES.values()} if hasattr(exp, "EXPR_CLASSES") else set()
    reached = res["classes"] | deco_res["classes"]
    ctx.evidence(
        "model_checking",
        {
            "states": res["states"] + deco_res["states"],
            "transitions": res["transitions"] + deco_res["transitions"],
            "traces_validated_against_impl": res["transitions"] + deco_res["transitions"],
            "evaluations": res["transitions"] + deco_res["transitions"],
            "distinct_nontrivial": res["nontrivial"] + deco_res["nontrivial"],
            "rule": "states = trees (G_core k<=1 per dialect" + ("" if quick else "; all of k<=2 in the base dialect as parsed under dump+load / JSON / pickle4 / copy") + ", identity.sql, optimizer/annotate fixtures, every statement of tests/dialects/*.py in its own dialect) as parsed / annotated / qualified / "
                    "qualified+annotated, plus hand-decorated trees and a cast to every DType member (bare / parameterised / nested); transitions = dump+load, JSON text round trip, pickle 2..5, copy, "
                    "deepcopy and 7 compositions; every transition must return an equal state (==, fingerprint with public types, "
                    "comments, meta; same SQL; tree invariants; no shared node). non-trivial = states carrying comments, meta or types.",
            "node_classes_reached": len(reached),
            "node_classes_never_reached": len(all_classes - reached) if all_classes else -1,
            "class_arg_valuetype_triples": len(res["coverage"] | deco_res["coverage"]),
            "exhaustive": True,
            "samples": res["samples"][:4] + [{"decorated_trees": [n for n, _ in decorated()]}],
        },
        ["a missing arg and None are one thing (serde transports no None); an empty list must come back as an empty list",
         "types are compared through the public .type (for casts that is `_type or to`)"],
    )


def replay(ctx: Ctx, case: dict) -> bool:
    logging.disable(logging.CRITICAL)
    if case["phase"] in dict(decorated()):
        items = [("", [(n, t) for n, t in decorated() if n == case["phase"]])]
    else:
        items = [(case["dialect"], [case["sql"]])]
    res = worker(0, 1, items, True)
    for k, v in res["viol"]:
        print(k, v["phase"], v["transition"], v["msg"])
    return bool(res["viol"])
