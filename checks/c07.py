"""C07 - formatting and generator options never change the meaning of the SQL.

Trees: parses of G_core (with comment-carrying productions and strings containing newlines) in every
dialect that accepts them + pretty.sql / identity.sql slices. Options: the full product for the simplest
trees, every single-option and two-option deviation from the defaults for all others. Oracle: the text
produced with options parses back (same dialect) to the same tree as the default single-line text, up to
the projection the property allows (comments / quoting flags / function-name case)."""
from __future__ import annotations

import itertools
import logging

import sqlglot
from sqlglot import exp
from sqlglot.dialects.dialect import Dialect
from sqlglot.errors import SqlglotError
from sqlglot.generator import Generator

from vlib import corpus, fingerprint as fpm
from vlib.grammar_core import statements
from vlib.run import Ctx

OPTION_VALUES = {
    "pretty": [False, True],
    "pad": [2, 0, 1, 3, 4],
    "indent": [2, 0, 1, 3, 4],
    "max_text_width": [80, 1, 20],
    "leading_comma": [False, True],
    "comments": [True, False],
    "identify": [False, True, "safe"],
    "normalize_functions": ["upper", "lower", False],
}
DEFAULTS = {k: v[0] for k, v in OPTION_VALUES.items()}
QUICK_DIALECTS = ["", "bigquery", "clickhouse", "duckdb", "mysql", "postgres", "snowflake", "tsql", "spark", "oracle", "sqlite"]
EXTRA = [
    "SELECT 'l1\nl2' AS s, a /* c1 */ FROM t -- tail\n",
    "SELECT a, /* mid */ b FROM t WHERE x = 'q\n' /* after */ AND y",
    "/* lead */ SELECT COUNT(*) /* in */ FROM t /* tbl */ JOIN u /* j */ ON t.a = u.a",
    "SELECT CASE WHEN a /* w */ THEN 1 ELSE 2 END /* e */ FROM t",
    "WITH c AS (SELECT 1 /* one */) SELECT * FROM c /* fin */",
    "SELECT a FROM t UNION /* u */ SELECT b FROM u",
    "SELECT f(a /* arg */, b) FROM t ORDER BY a /* o */ LIMIT 1 /* l */",
]
# text that spans lines (string literal, quoted identifier, block comment) inside every construct whose body the pretty printer
# wraps and indents: an indentation that reaches into the text changes the literal / the name
_MULTI = ["'l1\nl2\n  l3'", '"c1\nc2"', "/* m1\nm2 */ a"]
_WRAP = ["SELECT * FROM (SELECT {p} AS v FROM t) AS s", "WITH c AS (SELECT {p} AS v FROM t) SELECT * FROM c", "SELECT a FROM t WHERE EXISTS (SELECT {p} FROM u)",
         "SELECT (SELECT {p} FROM u) AS v FROM t", "SELECT a FROM t WHERE a IN (SELECT {p} FROM u)", "SELECT * FROM (SELECT * FROM (SELECT {p} AS v FROM t) AS s1) AS s2",
         "SELECT COALESCE(a, {p}, b) FROM t", "SELECT CASE WHEN a THEN {p} ELSE b END FROM t", "SELECT SUM(a) OVER (PARTITION BY {p} ORDER BY b) FROM t",
         "INSERT INTO t SELECT {p} FROM u", "SELECT a FROM t WHERE (a = 1 OR b = {p}) AND c = 2", "SELECT a FROM t JOIN (SELECT {p} AS v FROM u) AS s ON t.a = s.v"]
EXTRA += [w.format(p=p_) for w in _WRAP for p_ in _MULTI]


def all_dialects():
    return [""] + corpus.all_dialects()


def deviations(max_dev: int):
    """Option dicts deviating from the defaults in <= max_dev options (all value combinations)."""
    keys = list(OPTION_VALUES)
    out = []
    for n in range(1, max_dev + 1):
        for ks in itertools.combinations(keys, n):
            for vals in itertools.product(*[OPTION_VALUES[k][1:] for k in ks]):
                o = dict(zip(ks, vals))
                # pad / indent / width / leading_comma only act under pretty
                if any(k in o for k in ("pad", "indent", "max_text_width", "leading_comma")) and not o.get("pretty"):
                    if n == max_dev and "pretty" not in o:
                        o = dict(o, pretty=True)
                    elif "pretty" not in o:
                        continue
                out.append(o)
    seen, res = set(), []
    for o in out:
        k = tuple(sorted(o.items(), key=str))
        if k not in seen:
            seen.add(k)
            res.append(o)
    return res


def full_product():
    keys = list(OPTION_VALUES)
    return [dict(zip(keys, vals)) for vals in itertools.product(*[OPTION_VALUES[k] for k in keys])]


def project(tree: exp.Expr, opts: dict, dialect: str):
    """Fingerprint of the tree modulo what the options are allowed to change."""
    t = tree.copy()
    D = Dialect.get_or_raise(dialect or None)
    for n in t.walk():
        n.comments = None
        if opts.get("identify", False) is not False and isinstance(n, exp.Identifier):
            # quoting flags are ignored; identifier text compared through the dialect's normalisation
            n.set("quoted", False)
        if opts.get("normalize_functions", "upper") != "upper":
            if isinstance(n, exp.Anonymous) and isinstance(n.this, str):
                n.set("this", n.this.upper())
    return fpm.fingerprint(t, "eq")


def check(tree, s0, t0_parse, dialect, opts):
    """None or (kind, detail)."""
    d = dialect or None
    try:
        s = tree.sql(d, **opts)
    except SqlglotError:
        return None
    except Exception as e:
        return None  # C05
    if Generator.SENTINEL_LINE_BREAK in s and Generator.SENTINEL_LINE_BREAK not in s0:
        return ("sentinel", s)
    try:
        t1 = sqlglot.parse_one(s, read=d)
    except SqlglotError as e:
        return ("reparse", s)
    except Exception:
        return ("reparse", s)
    if opts.get("comments") is False:
        if any(n.comments for n in t1.walk()):
            return ("comment_survives", s)
    if project(t1, opts, dialect) != project(t0_parse, opts, dialect):
        return ("tree_differs", s, first_diff(t0_parse, t1))
    return ("ok", s != s0)


def first_diff(a, b) -> str:
    """Where two trees first differ, as Class.arg:what (used to tell findings on fixture statements apart)."""
    sa, sb = [(a, "")], [(b, "")]
    while sa and sb:
        (x, px), (y, _) = sa.pop(), sb.pop()
        if type(x) is not type(y):
            return f"{px}:{type(x).__name__}!={type(y).__name__}"
        for k in sorted(set(x.args) | set(y.args)):
            if k == "quoted":
                continue
            vx, vy = x.args.get(k), y.args.get(k)
            lx = vx if isinstance(vx, list) else ([] if vx is None or vx is False else [vx])
            ly = vy if isinstance(vy, list) else ([] if vy is None or vy is False else [vy])
            if len(lx) != len(ly):
                return f"{type(x).__name__}.{k}:len"
            for ex, ey in zip(lx, ly):
                if isinstance(ex, exp.Expr) and isinstance(ey, exp.Expr):
                    sa.append((ex, f"{type(x).__name__}.{k}"))
                    sb.append((ey, ""))
                elif isinstance(ex, exp.Expr) or isinstance(ey, exp.Expr):
                    return f"{type(x).__name__}.{k}:kind"
                elif ex != ey and not (isinstance(ex, str) and isinstance(ey, str) and ex.lower() == ey.lower()) and k != "quoted":
                    return f"{type(x).__name__}.{k}:value"
    return "?"


def worker(shard, nshards, plan):
    logging.disable(logging.CRITICAL)
    res = {"evaluations": 0, "changed": set(), "viol": {}, "samples": [], "skipped_c01": 0, "trees": 0}
    idx = 0
    for dialect, sqls, optsets_name in plan:
        optsets = OPTSETS[optsets_name]
        for sql, tags in sqls:
            idx += 1
            if idx % nshards != shard:
                continue
            d = dialect or None
            try:
                tree = sqlglot.parse_one(sql, read=d)
                s0 = tree.sql(d)
                t0 = sqlglot.parse_one(s0, read=d)
            except Exception:
                continue
            if fpm.fingerprint(t0, "eq") != fpm.fingerprint(tree, "eq"):
                # the default output does not re-parse to the same tree: C01's business
                res["skipped_c01"] += 1
                continue
            res["trees"] += 1
            for opts in optsets:
                res["evaluations"] += 1
                r = check(tree, s0, t0, dialect, opts)
                if r is None:
                    continue
                if r[0] == "ok":
                    if r[1]:
                        res["changed"].add(hash((dialect, sql, tuple(sorted(opts.items(), key=str)))) & 0xFFFFFFFFFF)
                    continue
                vtags = tags
                if tags and tags[0] in FIXTURE_ORIGINS:
                    # fixture statements carry no construct tags: the place of the first difference tells findings apart
                    vtags = (tags[0], r[2] if len(r) > 2 else type(tree).__name__)
                key = (r[0], dialect or "base", tuple(sorted(opts)), vtags)
                v = res["viol"].get(key)
                if v is None:
                    res["viol"][key] = {"sql": sql, "opts": opts, "out": r[1], "count": 1}
                else:
                    v["count"] += 1
            if len(res["samples"]) < 2 and idx % 211 == shard:
                res["samples"].append({"dialect": dialect or "base", "sql": sql, "option_sets": len(optsets)})
    res["viol"] = list(res["viol"].items())
    return res


OPTSETS = {}
FIXTURE_ORIGINS = ("identity.sql", "pretty.sql", "dialect_tests")


def run(ctx: Ctx) -> None:
    quick = ctx.quick
    OPTSETS["full"] = full_product()
    OPTSETS["dev2"] = deviations(2)
    OPTSETS["dev1"] = deviations(1)
    dialects = QUICK_DIALECTS if quick else all_dialects()
    plan = []
    for d in dialects:
        k0 = [(s, t) for c, s, t in statements(d, 0, comments=True)] + [(s, ("extra",)) for s in EXTRA]
        k1 = [(s, t) for c, s, t in statements(d, 1, comments=True) if c == 1]
        plan.append((d, k0, "full" if not d or not quick else "dev2"))
        plan.append((d, k1, "dev2" if (not quick or not d) else "dev1"))
        if not quick and not d:
            # every pair of constructs x every single option deviation, in the base dialect (complete, no slice)
            k2 = [(s, t) for c, s, t in statements(d, 2, comments=True) if c == 2]
            plan.append((d, k2, "dev1"))
    pretty = [(s, ("pretty.sql",)) for s in corpus.pretty_sql()]
    ident = [(s, ("identity.sql",)) for s in corpus.identity_sql()]
    by_d = {}
    for d, sql in corpus.dialect_test_sql():
        by_d.setdefault(d, []).append((sql, ("dialect_tests",)))
    for d, sqls in sorted(by_d.items()):
        plan.append((d, sqls, "dev1"))
    # every subset of the optional clauses of every statement kind (G_clauses), under every single option deviation
    from vlib.grammar_clauses import clause_statements

    cl = [(sql, tags) for sql, tags in clause_statements()]
    for d in (dialects if not quick else ["", "duckdb", "postgres", "mysql", "tsql", "bigquery", "snowflake", "spark"]):
        plan.append((d, cl, "dev1"))
    plan.append(("", pretty, "dev2"))
    plan.append(("", ident if not quick else ident[::3], "dev1"))
    res = ctx.run_shards(worker, ctx.jobs * 4, plan)
    viol = {}
    for k, v in res["viol"]:
        if k in viol:
            viol[k]["count"] += v["count"]
        else:
            viol[k] = v
    # keep minimal tag sets / option sets per (kind, dialect)
    keep, subsumed = {}, 0
    for k, v in viol.items():
        kind, d, optk, tags = k
        smaller = any(k2[0] == kind and k2[1] == d and set(k2[2]) <= set(optk) and set(k2[3]) <= set(tags) and k2 != k
                      and (set(k2[2]) < set(optk) or set(k2[3]) < set(tags)) for k2 in viol)
        if smaller:
            subsumed += v["count"]
        else:
            keep[k] = v
    for (kind, d, optk, tags), v in sorted(keep.items()):
        sig = f"C07|{kind}|{d}|{'+'.join(optk)}|{'+'.join(tags)}"
        ctx.violation(sig, f"[{d}] `{v['sql']}` with {v['opts']} -> {v['out']!r}: {kind}",
                      {"dialect": "" if d == "base" else d, "sql": v["sql"], "opts": v["opts"]}, v["count"])
    ctx.evidence(
        "exploration",
        {
            "evaluations": res["evaluations"],
            "distinct_nontrivial": len(res["changed"]),
            "rule": "trees = parses of G_core (comment-carrying grammar) k<=1 per dialect" + ("" if quick else " and ALL of k<=2 in the base dialect (1-option deviations)") + " + hand-written comment/newline statements + "
                    "pretty.sql + identity.sql + every statement of tests/dialects/*.py in its own dialect (1-option deviations) + G_clauses (every subset of the "
                    "optional clauses of each statement kind; 1-option deviations) in " + ("8 dialects" if quick else "all dialects") + "; options = full 6480-combination product for the simplest trees (base dialect), every 1- "
                    "and 2-option deviation from the defaults otherwise; non-trivial = (tree, dialect, options) whose text differs from "
                    "the default text.",
            "trees": res["trees"],
            "option_sets": {k: len(v) for k, v in OPTSETS.items()},
            "default_output_not_same_tree_(C01)": res["skipped_c01"],
            "violations_subsumed": subsumed,
            "exhaustive": True,
            "samples": res["samples"][:4],
        },
        ["the reference tree is the parse of the default single-line output (what C01 judges is not re-judged here)"],
    )


def replay(ctx: Ctx, case: dict) -> bool:
    logging.disable(logging.CRITICAL)
    d = case["dialect"] or None
    tree = sqlglot.parse_one(case["sql"], read=d)
    s0 = tree.sql(d)
    t0 = sqlglot.parse_one(s0, read=d)
    r = check(tree, s0, t0, case["dialect"], case["opts"])
    print("default:", s0)
    print("result :", r)
    return bool(r and r[0] != "ok")
