"""C17 - column lineage reports exactly the source columns feeding a result column.

A compositional generator builds relations bottom-up and carries, for every output column, the set of
base-table columns it was built from (projection expression = union of its column leaves; derived table /
CTE column inherits; set operations union by position; stars expand; scalar subqueries contribute their
projection). Every relation with <= k wrappers is rendered in four presentations (inline derived tables,
CTEs, first-level inner queries supplied through sources=, aliases renamed); for each output column
lineage(col) leaves must equal the ground truth, agree across presentations and with lineage(None)."""
from __future__ import annotations

import itertools
import logging
from dataclasses import dataclass, field

from sqlglot import exp
from sqlglot.errors import SqlglotError
from sqlglot.lineage import lineage

from vlib.run import Ctx

SCHEMA = {"x": {"a": "INT", "b": "INT"}, "y": {"b": "INT", "c": "INT"}}


@dataclass(frozen=True)
class Rel:
    template: str                      # uses {f0}, {f1} for FROM items and {s0} for scalar subqueries
    children: tuple = ()               # Rel or base-table name (str) per FROM item
    scalars: tuple = ()                # Rel (always rendered inline)
    cols: tuple = ()                   # ((name, frozenset of 'table.col'), ...)
    tags: tuple = ()
    cost: int = 0
    setop: tuple = ()                  # for UNION: (left Rel, right Rel)
    child_cols: tuple = ()             # alias column list applied to FROM item 0: (SELECT ...) AS t(p, q) / WITH c(p, q) AS (...)


def base(table, alias=None):
    cols = tuple((c, frozenset({f"{table}.{c}"})) for c in SCHEMA[table])
    if alias:
        # the base table under an alias that is ALSO the name / alias of another base table elsewhere in the query: what a name
        # denotes is a matter of scope, never of the name's text
        return Rel(f"SELECT {', '.join(alias + '.' + c for c in SCHEMA[table])} FROM {table} AS {alias}", (), (), cols, (f"base.{table}_as_{alias}",), 0)
    return Rel(f"SELECT {', '.join(SCHEMA[table])} FROM {{f0}}", (table,), (), cols, (f"base.{table}",), 0)


def wrappers(r: Rel, others: list[Rel]):
    names = [n for n, _ in r.cols]
    lin = dict(r.cols)
    c0 = names[0]
    c1 = names[1] if len(names) > 1 else names[0]
    U = lambda *cs: frozenset().union(*[lin[c] for c in cs])
    out = []
    out.append(Rel("SELECT t.%s + t.%s AS s, t.%s AS p FROM {f0}" % (c0, c1, c0), (r,), (), (("s", U(c0, c1)), ("p", U(c0))), r.tags + ("project",), r.cost + 1))
    out.append(Rel("SELECT * FROM {f0}", (r,), (), r.cols, r.tags + ("star",), r.cost + 1))
    out.append(Rel("SELECT t.* FROM {f0}", (r,), (), r.cols, r.tags + ("tstar",), r.cost + 1))
    out.append(Rel("SELECT t.%s AS p, 1 AS k FROM {f0}" % c0, (r,), (), (("p", U(c0)), ("k", frozenset())), r.tags + ("const",), r.cost + 1))
    out.append(Rel("SELECT MAX(t.%s) AS m, COUNT(*) AS n FROM {f0}" % c1, (r,), (), (("m", U(c1)), ("n", frozenset())), r.tags + ("agg",), r.cost + 1))
    out.append(Rel("SELECT t.%s AS p, SUM(t.%s) OVER (PARTITION BY t.%s) AS w FROM {f0}" % (c0, c1, c0), (r,), (),
                   (("p", U(c0)), ("w", U(c0, c1))), r.tags + ("window",), r.cost + 1))
    out.append(Rel("SELECT CASE WHEN t.%s > 1 THEN t.%s ELSE 0 END AS v, t.%s AS q FROM {f0}" % (c0, c1, c1), (r,), (),
                   (("v", U(c0, c1)), ("q", U(c1))), r.tags + ("case",), r.cost + 1))
    out.append(Rel("SELECT t.%s AS p, t.%s AS q FROM {f0} WHERE t.%s > 0 ORDER BY 1" % (c1, c0, c0), (r,), (),
                   (("p", U(c1)), ("q", U(c0))), r.tags + ("swap_filter",), r.cost + 1))
    out.append(Rel("SELECT t.%s AS p, {s0} AS m FROM {f0}" % c0, (r,), (base("y"),), (("p", U(c0)), ("m", frozenset({"y.c"}))), r.tags + ("scalar",), r.cost + 1))
    # value-position subqueries of other shapes: a set operation as the body, IN over a set operation, EXISTS-free arithmetic
    out.append(Rel("SELECT t.%s + (SELECT MAX(c) FROM y UNION ALL SELECT MAX(a) FROM x LIMIT 1) AS p, t.%s AS q FROM {f0}" % (c0, c1), (r,), (),
                   (("p", U(c0) | frozenset({"y.c", "x.a"})), ("q", U(c1))), r.tags + ("scalar_union",), r.cost + 1))
    out.append(Rel("SELECT t.%s IN (SELECT c FROM y UNION SELECT a FROM x) AS p, t.%s AS q FROM {f0}" % (c0, c1), (r,), (),
                   (("p", U(c0) | frozenset({"y.c", "x.a"})), ("q", U(c1))), r.tags + ("in_union",), r.cost + 1))
    out.append(Rel("SELECT t.%s IN (SELECT c FROM y) AS p, (SELECT MIN(b) FROM y) + t.%s AS q FROM {f0}" % (c0, c1), (r,), (),
                   (("p", U(c0) | frozenset({"y.c"})), ("q", U(c1) | frozenset({"y.b"}))), r.tags + ("in_select",), r.cost + 1))
    if len(names) == 2 and not isinstance(r.children[0] if r.children else "", str) or r.setop:
        if len(names) == 2:
            # the inner query's columns are renamed by an alias column list (whatever the shape of its body)
            out.append(Rel("SELECT t.p AS p, t.q AS q FROM {f0}", (r,), (), (("p", U(c0)), ("q", U(c1))), r.tags + ("alias_cols",), r.cost + 1, (), ("p", "q")))
            out.append(Rel("SELECT * FROM {f0}", (r,), (), (("p", U(c0)), ("q", U(c1))), r.tags + ("alias_cols_star",), r.cost + 1, (), ("p", "q")))
    # the SAME inner query referenced twice: once bare (columns qualified by its own name: {q0}.col FROM {r0}) and once through an
    # alias, in a scalar subquery / a self join / an IN subquery, the aliased reference before or after the bare one
    out.append(Rel("SELECT {q0}.%s + (SELECT MAX(t.%s) FROM {f0}) AS s, {q0}.%s AS p FROM {r0}" % (c0, c1, c1), (r,), (),
                   (("s", U(c0, c1)), ("p", U(c1))), r.tags + ("bare_and_scalar_alias",), r.cost + 1))
    out.append(Rel("SELECT {q0}.%s AS p, t.%s AS q FROM {r0} JOIN {f0} ON {q0}.%s = t.%s" % (c0, c1, c0, c0), (r,), (),
                   (("p", U(c0)), ("q", U(c1))), r.tags + ("bare_join_alias",), r.cost + 1))
    out.append(Rel("SELECT t.%s AS p, {q0}.%s AS q FROM {f0} JOIN {r0} ON {q0}.%s = t.%s" % (c0, c1, c0, c0), (r,), (),
                   (("p", U(c0)), ("q", U(c1))), r.tags + ("alias_join_bare",), r.cost + 1))
    out.append(Rel("SELECT {q0}.%s AS p FROM {r0} WHERE {q0}.%s IN (SELECT t.%s FROM {f0})" % (c0, c1, c1), (r,), (),
                   (("p", U(c0)),), r.tags + ("bare_in_alias",), r.cost + 1))
    out.append(Rel("SELECT t1.%s AS p, t2.%s AS q FROM {f0} JOIN {f1} ON t1.%s = t2.%s" % (c0, c1, c0, c0), (r, r), (),
                   (("p", U(c0)), ("q", U(c1))), r.tags + ("self_join",), r.cost + 1))
    for o in others:
        on = [n for n, _ in o.cols]
        ol = dict(o.cols)
        out.append(Rel("SELECT t1.%s AS p, t2.%s AS q, t1.%s + t2.%s AS s FROM {f0} JOIN {f1} ON t1.%s = t2.%s" % (c0, on[-1], c0, on[0], c1, on[0]),
                       (r, o), (), (("p", U(c0)), ("q", ol[on[-1]]), ("s", U(c0) | ol[on[0]])), r.tags + o.tags + ("join",), r.cost + o.cost + 1))
        if len(o.cols) == len(r.cols):
            cols = tuple((n, l | ol[on[i]]) for i, (n, l) in enumerate(r.cols))
            out.append(Rel("", (), (), cols, r.tags + o.tags + ("union",), r.cost + o.cost + 1, (r, o)))
    return out


def scalar_sql(r: Rel) -> str:
    return "(SELECT MAX(c) FROM y)"


def alias_names(n, renamed):
    if n == 1:
        return ["u" if renamed else "t"]
    return [("u%d" if renamed else "t%d") % (i + 1) for i in range(n)]


def render_inline(r: Rel, renamed=False) -> str:
    if r.setop:
        return f"{render_inline(r.setop[0], renamed)} UNION ALL {render_inline(r.setop[1], renamed)}"
    als = alias_names(len(r.children), False)
    items = {}
    for i, (c, a) in enumerate(zip(r.children, als)):
        if isinstance(c, str):
            items[f"f{i}"] = c
        else:
            items[f"f{i}"] = f"({render_inline(c, renamed)}) AS {a}" + (f"({', '.join(r.child_cols)})" if r.child_cols and i == 0 else "")
            items[f"r{i}"] = f"({render_inline(c, renamed)}) AS b{i}"   # a derived table cannot be bare: its own name is the alias b<i>
            items[f"q{i}"] = f"b{i}"
    for i, s in enumerate(r.scalars):
        items[f"s{i}"] = scalar_sql(s)
    sql = r.template.format(**items)
    if renamed:
        import re

        sql_top = sql
        # rename this level's aliases t/t1/t2 -> u/u1/u2 (inner levels were rendered with renamed=True already)
        sql = re.sub(r"\bt(\d?)\b(?=\.| ON| JOIN|$| WHERE| ORDER)", lambda m: "u" + m.group(1), sql_top)
        sql = re.sub(r"AS t(\d?)\b", lambda m: "AS u" + m.group(1), sql)
    return sql


def render_cte(r: Rel) -> str:
    ctes: list[tuple[str, str]] = []

    def body(rel: Rel) -> str:
        if rel.setop:
            return f"{body(rel.setop[0])} UNION ALL {body(rel.setop[1])}"
        als = alias_names(len(rel.children), False)
        items = {}
        for i, (c, a) in enumerate(zip(rel.children, als)):
            if isinstance(c, str):
                items[f"f{i}"] = c
            else:
                inner = body(c)
                cols = f"({', '.join(rel.child_cols)})" if rel.child_cols and i == 0 else ""
                existing = next((n for n, b in ctes if b == inner and n.endswith(cols) and ("(" in n) == bool(cols)), None)
                if existing is None:
                    existing = f"cte{len(ctes)}{cols}"
                    ctes.append((existing, inner))
                items[f"f{i}"] = f"{existing.split('(')[0]} AS {a}"
                items[f"r{i}"] = items[f"q{i}"] = existing.split('(')[0]
        for i, s in enumerate(rel.scalars):
            items[f"s{i}"] = scalar_sql(s)
        return rel.template.format(**items)

    main = body(r)
    if not ctes:
        return main
    return "WITH " + ", ".join(f"{n} AS ({b})" for n, b in ctes) + " " + main


def render_sources(r: Rel):
    """Top level references its first-level inner queries as tables src0, src1 supplied through sources=."""
    if r.setop:
        return None
    srcs = {}
    als = alias_names(len(r.children), False)
    items = {}
    for i, (c, a) in enumerate(zip(r.children, als)):
        if isinstance(c, str):
            items[f"f{i}"] = c
        else:
            body = render_inline(c)
            # the same inner query gets ONE source name, so a source can be referenced through two aliases
            name = next((n for n, b in srcs.items() if b == body), None) or f"src{len(srcs)}"
            srcs[name] = body
            items[f"f{i}"] = f"{name} AS {a}" + (f"({', '.join(r.child_cols)})" if r.child_cols and i == 0 else "")
            items[f"r{i}"] = items[f"q{i}"] = name
    for i, s in enumerate(r.scalars):
        items[f"s{i}"] = scalar_sql(s)
    if not srcs:
        return None
    return r.template.format(**items), srcs


CORE_TOP = ("project", "star", "agg", "union", "join", "alias_cols", "scalar_union")


def relations(k: int):
    level0 = [base("x"), base("y"), base("y", alias="x")]
    allr = {0: level0}
    seen = {render_inline(r) for r in level0}
    out = list(level0)
    for cost in range(1, k + 1):
        new = []
        for r in [x for x in out if x.cost == cost - 1]:
            others = [o for o in out if o.cost + r.cost + 1 <= cost and (o.cost < r.cost or (o.cost == r.cost))]
            for w in wrappers(r, others if cost <= 3 else others[:4]):
                if w.cost != cost:
                    continue
                if any(t_.endswith("_as_x") for t_ in w.tags) and (w.tags[-1] not in ("project", "union", "join", "self_join", "star") or cost > 2):
                    continue   # the re-aliased base table only under the wrappers that put two base tables side by side (and one more level)
                if cost >= 4 and w.tags[-1] not in CORE_TOP:
                    continue   # the 4th (outermost) wrapper ranges over the core menu only (the full menu gives 228 k relations)
                key = render_inline(w)
                if key in seen:
                    continue
                seen.add(key)
                new.append(w)
        out += new
    return out


def leaves(node) -> frozenset:
    # a leaf is named alias.column; the base table is the Table expression it carries (an alias says nothing about the table)
    return frozenset(f"{n.expression.name}.{n.name.split('.')[-1]}" for n in node.walk() if isinstance(n.expression, exp.Table))


def check_rel(r: Rel, res, record):
    inline = render_inline(r)
    pres = [("inline", inline, None), ("cte", render_cte(r), None), ("renamed", render_inline(r, True), None)]
    rs = render_sources(r)
    if rs:
        pres.append(("sources", rs[0], rs[1]))
    truth = dict(r.cols)
    multi_path = len(r.children) > 1 and not isinstance(r.children[0], str) and r.children[0] == r.children[-1]
    for pname, sql, sources in pres:
        try:
            allmap = lineage(None, sql, schema=SCHEMA, sources=sources)
        except SqlglotError as e:
            record(f"error|{pname}|{'+'.join(r.tags[-2:])}", sql, f"lineage(None) raised {type(e).__name__}: {str(e)[:80]}")
            continue
        except RecursionError:
            continue
        except Exception as e:
            record(f"crash|{type(e).__name__}|{pname}", sql, f"lineage leaked {type(e).__name__}: {str(e)[:80]}")
            continue
        for name, want in truth.items():
            res["evaluations"] += 1
            try:
                got = leaves(lineage(name, sql, schema=SCHEMA, sources=sources))
            except SqlglotError as e:
                record(f"error|{pname}|{'+'.join(r.tags[-2:])}", sql, f"lineage({name!r}) raised {type(e).__name__}: {str(e)[:80]}")
                continue
            except Exception as e:
                record(f"crash|{type(e).__name__}|{pname}", sql, f"lineage({name!r}) leaked {type(e).__name__}: {str(e)[:80]}")
                continue
            if got != want:
                kind = "missing" if want - got else "extra"
                record(f"{kind}|{pname}|{'+'.join(r.tags[-2:])}", sql, f"lineage({name!r}) leaves {sorted(got)}, ground truth {sorted(want)}")
            shared = allmap.get(name)
            if shared is None:
                record(f"all_missing_column|{pname}", sql, f"lineage(None) has no entry for output column {name!r} (has {sorted(allmap)})")
            elif leaves(shared) != got:
                record(f"shared_cache|{pname}|{'+'.join(r.tags[-2:])}", sql, f"lineage(None)[{name!r}] leaves {sorted(leaves(shared))} differ from lineage({name!r}) {sorted(got)}")
        if multi_path or "union" in r.tags or "self_join" in r.tags:
            res["nontrivial"] += 1


def worker(shard, nshards, k):
    logging.disable(logging.CRITICAL)
    res = {"evaluations": 0, "nontrivial": 0, "viol": {}, "samples": [], "relations": 0}

    def record(sig, sql, msg):
        v = res["viol"].get(sig)
        if v is None:
            res["viol"][sig] = {"sql": sql, "msg": msg, "count": 1}
        else:
            v["count"] += 1
            if len(sql) < len(v["sql"]):
                v.update(sql=sql, msg=msg)

    rels = relations(k)
    for i, r in enumerate(rels):
        if i % nshards != shard:
            continue
        res["relations"] += 1
        check_rel(r, res, record)
        if len(res["samples"]) < 2 and i % 101 == shard:
            res["samples"].append({"inline": render_inline(r), "cte": render_cte(r), "truth": {n: sorted(l) for n, l in r.cols}})
    res["viol"] = list(res["viol"].items())
    return res


def positional_cases():
    """Set operations one branch of which projects the SAME output name twice (explicitly, or through a star over a join of two
    tables sharing a column name): branch columns correspond by POSITION, never by name. Ground truth written out by position.
    Every body x the presentations top-level / derived table / CTE / operands swapped."""
    bodies = {
        "dup_explicit": ("SELECT a AS p, b AS q, a AS r FROM x", "SELECT t1.b, t2.b, t2.c FROM x AS t1 JOIN y AS t2 ON t1.b = t2.b",
                         ["p", "q", "r"], [{"x.a", "x.b"}, {"x.b", "y.b"}, {"x.a", "y.c"}]),
        "dup_star": ("SELECT a AS p, b AS q, a AS r, b AS s FROM x", "SELECT * FROM x AS t1 JOIN y AS t2 ON t1.b = t2.b",
                     ["p", "q", "r", "s"], [{"x.a"}, {"x.b"}, {"x.a", "y.b"}, {"x.b", "y.c"}]),
        "dup_same_table": ("SELECT b AS p, c AS q, c AS r FROM y", "SELECT t1.a, t1.a, t1.b FROM x AS t1", ["p", "q", "r"], [{"y.b", "x.a"}, {"y.c", "x.a"}, {"y.c", "x.b"}]),
        "dup_three": ("SELECT a AS p, b AS q, a AS r FROM x", "SELECT t1.b, t2.b, t2.c FROM x AS t1 JOIN y AS t2 ON t1.b = t2.b UNION ALL SELECT c, c, b FROM y",
                      ["p", "q", "r"], [{"x.a", "x.b", "y.c"}, {"x.b", "y.b", "y.c"}, {"x.a", "y.c", "y.b"}]),
    }
    out = []
    for bn, (left, right, names, want) in bodies.items():
        q = f"{left} UNION ALL {right}"
        forms = {"top": q, "derived": f"SELECT * FROM ({q}) AS d", "cte": f"WITH c AS ({q}) SELECT * FROM c",
                 "derived_cols": f"SELECT {', '.join('d.' + n for n in names)} FROM ({q}) AS d"}
        for fn, sql in forms.items():
            out.append((f"{bn}.{fn}", sql, names, want))
    return out


def run(ctx: Ctx) -> None:
    k = 3 if ctx.quick else 4
    res = ctx.run_shards(worker, ctx.jobs * 2, k)
    logging.disable(logging.CRITICAL)
    pos_n = 0
    for tag, sql, names, want in positional_cases():
        for name, w in zip(names, want):
            pos_n += 1
            try:
                got = set(leaves(lineage(name, sql, schema=SCHEMA)))
            except Exception as e:
                got = {f"<{type(e).__name__}>"}
            if got != w:
                ctx.violation(f"C17|positional|{tag}", f"`{sql}`: lineage({name!r}) leaves {sorted(got)}, the columns at that position are {sorted(w)}",
                              {"sql": sql, "sig": f"positional|{tag}", "column": name, "want": sorted(w)})
    viol = {}
    for sig, v in res["viol"]:
        if sig in viol:
            viol[sig]["count"] += v["count"]
            if len(v["sql"]) < len(viol[sig]["sql"]):
                viol[sig].update(sql=v["sql"], msg=v["msg"])
        else:
            viol[sig] = v
    for sig, v in sorted(viol.items()):
        ctx.violation("C17|" + sig, f"`{v['sql']}`: {v['msg']}", {"sql": v["sql"], "sig": sig}, v["count"])
    ctx.evidence(
        "exploration",
        {
            "evaluations": res["evaluations"],
            "distinct_nontrivial": res["nontrivial"],
            "rule": f"every relation built from base tables x(a,b), y(b,c) with <= {min(k, 3)} wrappers" + (" plus a 4th, outermost wrapper from the core menu " + "/".join(CORE_TOP) if k >= 4 else "")
                    + " (projection expressions, *, t.*, constants, "
                    "aggregates, windows, CASE, column swap + filter, scalar / IN subqueries incl. set-operation bodies, alias column lists, self join of the same inner query through two aliases, "
                    "join with every cheaper relation, UNION ALL with every relation of equal arity), each in 4 presentations (inline derived "
                    "tables, CTEs with shared CTEs reused, first-level inner queries through sources=, aliases renamed); per output column "
                    "lineage(col) leaves == compositional ground truth == lineage(None)[col]. non-trivial = relations in which a source is "
                    "reached by two paths (self join, union, shared CTE).",
            "relations": res["relations"],
            "positional_set_operation_cases": pos_n,
            "max_wrappers": k,
            "exhaustive": True,
            "samples": res["samples"][:2],
        },
        ["'syntactically flows into' = union of the column leaves of the projection expression (incl. PARTITION BY / CASE conditions), "
         "nothing from WHERE / ON / ORDER BY"],
    )


def replay(ctx: Ctx, case: dict) -> bool:
    logging.disable(logging.CRITICAL)
    if case.get("sig", "").startswith("positional|"):
        got = set(leaves(lineage(case["column"], case["sql"], schema=SCHEMA)))
        print("lineage leaves", sorted(got), "expected", case["want"])
        return got != set(case["want"])
    found = []
    for k in (1, 2, 3):
        for r in relations(k):
            for render in (render_inline, render_cte, lambda x: render_inline(x, True)):
                if render(r) == case["sql"]:
                    res = {"evaluations": 0, "nontrivial": 0}
                    check_rel(r, res, lambda sig, sql, msg: found.append((sig, msg)))
                    for f in found:
                        print(f)
                    return bool(found)
    print("relation not found in enumeration (sources presentation?)")
    return False
