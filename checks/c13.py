"""C13 - source positions of tokens, nodes and errors point at the text they describe.

(a) all character strings of length <= L over a position-adversarial alphabet, per dialect;
(b) all sequences of <= n lexemes from a menu joined by each of several separators;
(c) ParseError entries for every single-token deletion/duplication of G_core statements (k<=1);
(d) identifier / column / table position meta on G_core parses.
Oracles are independent re-computations from the raw text (a 10-line line/column reference, a gap
scanner built from the dialect's COMMENTS, delimiter tables from the tokenizer class)."""
from __future__ import annotations

import itertools
import logging

import sqlglot
from sqlglot import exp
from sqlglot.dialects.dialect import Dialect
from sqlglot.errors import ErrorLevel, ParseError, SqlglotError, TokenError
from sqlglot.tokens import TokenType

from vlib import corpus
from vlib.grammar_core import statements
from vlib.run import Ctx

QUICK_DIALECTS = ["", "bigquery", "clickhouse", "duckdb", "mysql", "postgres", "snowflake", "tsql", "hive", "oracle", "sqlite"]


def all_dialects():
    return [""] + corpus.all_dialects()


def ref_positions(sql: str, lone_cr_breaks: bool):
    """(line, col) of every offset: '\\n' ends a line, '\\r\\n' is one break, a lone '\\r' ends a line iff
    lone_cr_breaks. col is the 1-based offset within the line."""
    out = []
    line, col = 1, 0
    for k, ch in enumerate(sql):
        if k > 0:
            prev = sql[k - 1]
            if prev == "\n" or (prev == "\r" and ch != "\n" and lone_cr_breaks):
                line += 1
                col = 0
        col += 1
        out.append((line, col))
    return out


def has_lone_cr(sql: str) -> bool:
    return any(ch == "\r" and sql[i + 1:i + 2] != "\n" for i, ch in enumerate(sql))


class Lex:
    def __init__(self, dialect: str):
        self.dialect = dialect
        self.D = Dialect.get_or_raise(dialect or None)
        T = self.D.tokenizer_class
        self.T = T
        self.line_comments = [c for c in T.COMMENTS if isinstance(c, str)]
        self.block_comments = [c for c in T.COMMENTS if not isinstance(c, str)]
        self.nested = bool(getattr(T, "NESTED_COMMENTS", False))
        self.string_delims = {}
        for q in T.QUOTES:
            s, e = (q, q) if isinstance(q, str) else q
            self.string_delims[s] = e
        for start, (end, _tt) in getattr(T, "_FORMAT_STRINGS", {}).items():
            self.string_delims[start] = end
        self.ident_delims = {}
        for q in T.IDENTIFIERS:
            s, e = (q, q) if isinstance(q, str) else q
            self.ident_delims[s] = e

    def gap_ok(self, gap: str) -> bool:
        """gap consists solely of whitespace and comments of this dialect."""
        i, n = 0, len(gap)
        while i < n:
            ch = gap[i]
            if ch.isspace():
                i += 1
                continue
            for s, e in self.block_comments:
                if gap.startswith(s, i):
                    depth, j = 1, i + len(s)
                    while j < n and depth:
                        if gap.startswith(e, j):
                            depth -= 1
                            j += len(e)
                        elif self.nested and gap.startswith(s, j):
                            depth += 1
                            j += len(s)
                        else:
                            j += 1
                    i = j  # an unterminated block comment runs to the end of the input
                    break
            else:
                for s in sorted(self.line_comments, key=len, reverse=True):
                    if gap.startswith(s, i):
                        j = i
                        while j < n and gap[j] not in "\n\r":
                            j += 1
                        i = j
                        break
                else:
                    return False
        return True


_LEX: dict[str, Lex] = {}


def lex_for(d):
    if d not in _LEX:
        _LEX[d] = Lex(d)
    return _LEX[d]


SHARED_SPAN_OK = False


def check_tokens(sql: str, dialect: str, tokens=None):
    """List of (code, message) problems for the token stream of sql in dialect."""
    L = lex_for(dialect)
    if tokens is None:
        try:
            tokens = L.D.tokenize(sql)
        except TokenError as e:
            if e.start is not None and e.end is not None:
                if f"Error tokenizing '{sql[e.start:e.end]}'" != str(e):
                    return [("tokenerror.context", f"TokenError start/end do not select the quoted context: {e!s:.80}")]
            return []
        except Exception:
            return []  # internal exceptions: C05
    if tokens and tokens[0].token_type.name == "HIVE_TOKEN_STREAM" and tokens[0].text == "":
        # Athena prepends a zero-width marker (not a lexeme) and hands the statement to Hive's tokenizer: judge the rest as Hive's
        tokens = tokens[1:]
        L = lex_for("hive")
    probs = []
    n = len(sql)
    lone_cr = has_lone_cr(sql)
    posA = ref_positions(sql, True)
    posB = ref_positions(sql, False) if lone_cr else posA
    prev_end = -1
    suffix_members = set()
    for i in range(len(tokens) - 2):
        a, b, c = tokens[i:i + 3]
        if a.token_type == TokenType.NUMBER and b.token_type == TokenType.DCOLON and (a.start, a.end) == (b.start, b.end) == (c.start, c.end):
            suffix_members.update((i, i + 1, i + 2))
    reported_suffix = False
    for idx, t in enumerate(tokens):
        tt = t.token_type.name
        if idx in suffix_members:
            # numeric literal with a type suffix (1L): three synthesized tokens share the literal's span
            if not reported_suffix:
                probs.append(("suffix_literal", f"numeric suffix literal {sql[t.start:t.end + 1]!r} is emitted as NUMBER, '::' and a type token that all carry the span of the whole literal"))
                reported_suffix = True
            lc = (t.line, t.col)
            if lc != posA[t.end] and lc != posB[t.end] and not lone_cr:
                probs.append(("linecol", f"{tt} token {t.text!r} at offset {t.end} reports line/col {lc}, text position is {posA[t.end]}"))
            prev_end = max(prev_end, t.end)
            continue
        if not (0 <= t.start <= t.end < n):
            probs.append(("span.range", f"{tt} token {t.text!r} has span [{t.start},{t.end}] outside 0..{n - 1}"))
            prev_end = max(prev_end, min(max(t.end, -1), n - 1))
            continue
        if t.start <= prev_end:
            probs.append(("span.overlap", f"{tt} token {t.text!r} span [{t.start},{t.end}] overlaps/precedes previous end {prev_end}"))
        elif not L.gap_ok(sql[prev_end + 1:t.start]):
            probs.append(("gap", f"text {sql[prev_end + 1:t.start]!r} before {tt} token {t.text!r} is neither whitespace nor comment"))
        lc = (t.line, t.col)
        if lc != posA[t.end] and lc != posB[t.end]:
            if not lone_cr:
                probs.append(("linecol", f"{tt} token {t.text!r} at offset {t.end} reports line/col {lc}, text position is {posA[t.end]}"))
        lexeme = sql[t.start:t.end + 1]
        p = lexeme_problem(L, t, lexeme)
        if p:
            probs.append(("lexeme", f"{tt} token text {t.text!r} but its span selects {lexeme!r}: {p}"))
        prev_end = max(prev_end, t.end)
    if tokens and not L.gap_ok(sql[prev_end + 1:]):
        probs.append(("gap", f"trailing text {sql[prev_end + 1:]!r} is neither whitespace nor comment"))
    return probs


def norm_ws(s: str) -> str:
    return " ".join(s.split()).upper()


def lexeme_problem(L: Lex, t, lexeme: str):
    tt = t.token_type
    if tt in (TokenType.STRING, TokenType.NATIONAL_STRING, TokenType.RAW_STRING, TokenType.BYTE_STRING,
              TokenType.HEREDOC_STRING, TokenType.UNICODE_STRING, TokenType.HEX_STRING, TokenType.BIT_STRING):
        if tt == TokenType.STRING and norm_ws(lexeme) == norm_ws(t.text):
            return None  # the tail of a command (SHOW ..., EXECUTE ...) is carried verbatim in a STRING token
        if tt in (TokenType.HEX_STRING, TokenType.BIT_STRING) and lexeme[:2].lower() in ("0x", "0b") and lexeme[2:] == t.text:
            return None  # 0x1F / 0b101 numeric spellings are recognised by the number scanner in every dialect
        for s, e in sorted(L.string_delims.items(), key=lambda kv: -len(kv[0])):
            # literal prefixes (x'..', 0x.., b'..', n'..') are matched case-insensitively, as the scanner does
            if lexeme[:len(s)].lower() == s.lower() and (not e or lexeme.endswith(e)) and len(lexeme) >= len(s) + len(e):
                inner = lexeme[len(s):len(lexeme) - len(e)] if e else lexeme[len(s):]
                if "\\" not in inner and (tt in (TokenType.HEX_STRING, TokenType.BIT_STRING) or (e and e not in inner)):
                    if inner != t.text and tt not in (TokenType.HEREDOC_STRING,):
                        return "delimited content differs from token text"
                return None
        if lexeme.startswith("$"):
            return None  # tagged dollar quoting: $tag$...$tag$
        return "span is not delimited like a string of this dialect"
    if tt == TokenType.IDENTIFIER:
        if lexeme == t.text:
            return None  # unquoted fallback (e.g. a bare `0x`)
        for s, e in L.ident_delims.items():
            if lexeme.startswith(s) and lexeme.endswith(e) and len(lexeme) >= len(s) + len(e):
                inner = lexeme[len(s):len(lexeme) - len(e)]
                if e not in inner and "\\" not in inner and inner != t.text:
                    return "delimited content differs from token text"
                return None
        return "span is not delimited like an identifier of this dialect"
    if tt == TokenType.NUMBER:
        if lexeme.replace("_", "").upper() == t.text.replace("_", "").upper():
            return None
        return "number text differs"
    if norm_ws(lexeme) == norm_ws(t.text):
        return None
    return "text differs"


# ------------------------------------------------------------------ spaces

def char_alphabet(dialect: str) -> list[str]:
    L = lex_for(dialect)
    chars = [" ", "\t", "\n", "\r", "a", "1", "é", "中", "\\", "-", "/", "*", "#", ".", ",", ";", "(", ")", "e", "_", "L", "$"]
    for s in list(L.string_delims) + list(L.ident_delims) + list(L.ident_delims.values()):
        for c in s:
            if c not in chars:
                chars.append(c)
    return chars


def lexeme_menu(dialect: str) -> list[str]:
    L = lex_for(dialect)
    q = next(iter(L.T.QUOTES))
    q = q if isinstance(q, str) else q[0]
    i = next(iter(L.ident_delims.items()))
    menu = ["SELECT", "GROUP BY", "GROUP  \n BY", "ORDER\tBY", "a", "tbl", i[0] + "I d" + i[1], "1", "1.5", "1e5", "1_0", "0x1F", "1L",
            q + "s" + q, q + "it" + q + q + "s" + q, q + "a\\" + "n" + q, q + "l1\nl2" + q, q + "c\rd" + q, q + "é中" + q,
            "-- c\n", "/* b\n c */", "é", "=", "<>", "(", ")", ",", "::", "SHOW x", "中"]
    for start, (end, _tt) in sorted(getattr(L.T, "_FORMAT_STRINGS", {}).items()):
        if start.lower() == start:
            body = "10" if start.lower().startswith(("b", "0b")) else "1F"
            menu.append(start + body + end if len(start) > 1 or start != "$" else "$$x$$")
    return menu


JOINERS = ["", " ", "\n", "\r\n", "\t"]
JOINERS_QUICK = ["", " ", "\n", "\r\n"]


def worker(shard, nshards, plan):
    logging.disable(logging.CRITICAL)
    res = {"evaluations": 0, "nontrivial": 0, "viol": {}, "samples": [], "tokens": 0, "errors_checked": 0, "nodes_checked": 0}

    def record(code, dialect, space, sql, msg):
        key = (code, ("*" if code == "suffix_literal" else dialect or "base"), sig_shape(code, msg))
        v = res["viol"].get(key)
        if v is None:
            res["viol"][key] = {"sql": sql, "msg": msg, "space": space, "count": 1}
        else:
            v["count"] += 1
            if len(sql) < len(v["sql"]):
                v.update(sql=sql, msg=msg, space=space)

    idx = 0
    for unit in plan:
        kind, dialect = unit[0], unit[1]
        if kind == "chars":
            alpha, Lmax = char_alphabet(dialect), unit[2]
            for ln in range(1, Lmax + 1):
                for combo in itertools.product(alpha, repeat=ln):
                    idx += 1
                    if idx % nshards != shard:
                        continue
                    sql = "".join(combo)
                    one(sql, dialect, "chars", res, record)
        elif kind == "lexemes":
            menu, n, joiners = lexeme_menu(dialect), unit[2], unit[3]
            for ln in range(1, n + 1):
                for combo in itertools.product(menu, repeat=ln):
                    for js in itertools.product(joiners, repeat=ln - 1) if ln > 1 else [()]:
                        idx += 1
                        if idx % nshards != shard:
                            continue
                        sql = combo[0] + "".join(j + c for j, c in zip(js, combo[1:]))
                        one(sql, dialect, "lexemes", res, record)
        elif kind == "errors":
            for cost, sql, tags in statements(dialect, unit[2]):
                idx += 1
                if idx % nshards != shard:
                    continue
                errors_and_nodes(sql, dialect, res, record)
                # the same statement behind characters that a tokenizer may treat specially at the very start of the input (byte
                # order mark, zero-width and no-break spaces): every offset must still refer to the text that was passed in
                for lead in ("\ufeff", "\u200b", "\u00a0", "\ufeff\n"):
                    one(lead + sql, dialect, "lead", res, record)
                    errors_and_nodes(lead + sql, dialect, res, record)
        elif kind == "reuse":
            # positions reported by a Tokenizer object that has already tokenized another input (every ordered pair)
            firsts = ["SELECT 1", "SELECT 1\n", "SELECT 1 -- c\n", "SELECT 1\r", "SELECT 1\r\n", "SELECT 'a\nb'", "SELECT /* x\ny */ 1", "\n\n", "SELECT 'open", "/* open",
                      "SELECT 1 /* c */\n\n\t"]
            seconds = ["SELECT a", "\nSELECT a", "SELECT\n a,\n b", "SELECT 'x\ny', b", "-- c\nSELECT a", "SELECT é, a"]
            T = lex_for(dialect).D.tokenizer()
            for f in firsts:
                for g in seconds:
                    idx += 1
                    if idx % nshards != shard:
                        continue
                    res["evaluations"] += 1
                    try:
                        T.tokenize(f)
                    except Exception:
                        pass
                    try:
                        toks = T.tokenize(g)
                    except Exception:
                        continue
                    for code, msg in check_tokens(g, dialect, toks):
                        record(code + ".reused", dialect, "reuse", g, f"after tokenizing {f!r} on the same Tokenizer: {msg}")
        elif kind == "corpus":
            # statements of the repository's dialect tests: as written, and with every gap between two tokens turned into a
            # line break / CRLF + tab (dialect-specific lexemes - heredocs, hints, prefixes, nested comments - now span lines)
            for sql in unit[2]:
                idx += 1
                if idx % nshards != shard:
                    continue
                one(sql, dialect, "corpus", res, record)
                errors_and_nodes(sql, dialect, res, record)
                try:
                    toks = lex_for(dialect).D.tokenize(sql)
                except Exception:
                    continue
                if len(toks) >= 2 and all(0 <= a.end < b.start for a, b in zip(toks, toks[1:])):
                    for sep in ("\n", "\r\n\t"):
                        parts, last = [], 0
                        for a, b in zip(toks, toks[1:]):
                            gap = sql[a.end + 1:b.start]
                            parts.append(sql[last:a.end + 1])
                            parts.append(sep if gap.strip() == "" and gap != "" else gap)
                            last = b.start
                        parts.append(sql[last:])
                        v = "".join(parts)
                        one(v, dialect, "corpus", res, record)
                        if sep == "\n" and len(unit) > 3 and unit[3]:
                            errors_and_nodes(v, dialect, res, record)
    res["viol"] = list(res["viol"].items())
    return res


def sig_shape(code, msg):
    import re

    if code == "lexeme":
        m = re.match(r"(\w+) token", msg)
        return (m.group(1) if m else "?") + ":" + msg.rsplit(": ", 1)[-1]
    if code == "node.span":
        return msg[1:msg.index("]")] if msg.startswith("[") else ""
    if code in ("linecol", "span.range", "span.overlap"):
        m = re.match(r"(\w+) token", msg)
        return m.group(1) if m else "?"
    return ""


def one(sql, dialect, space, res, record):
    res["evaluations"] += 1
    L = lex_for(dialect)
    try:
        tokens = L.D.tokenize(sql)
    except TokenError:
        tokens = None
    except Exception:
        return
    if tokens is not None:
        res["tokens"] += len(tokens)
        if len(tokens) >= 2 and ("\n" in sql or "\r" in sql or any(ord(c) > 127 for c in sql)):
            res["nontrivial"] += 1
        if res["evaluations"] % 50021 == 1 and len(res["samples"]) < 3:
            res["samples"].append({"dialect": dialect or "base", "sql": sql})
    for code, msg in check_tokens(sql, dialect, tokens):
        record(code, dialect, space, sql, msg)


def errors_and_nodes(sql, dialect, res, record):
    L = lex_for(dialect)
    try:
        tokens = L.D.tokenize(sql)
    except Exception:
        return
    # (d) node positions on the valid statement
    try:
        tree = sqlglot.parse_one(sql, read=dialect or None)
    except Exception:
        tree = None
    if tree is not None and not has_lone_cr(sql):
        pos = ref_positions(sql, True)
        for node in tree.walk():
            if isinstance(node, exp.Identifier):
                m = node._meta or {}
                if isinstance(m.get("start"), int) and isinstance(m.get("end"), int):   # None: no position recorded (synthesised token)
                    res["nodes_checked"] += 1
                    seg = sql[m["start"]:m["end"] + 1]
                    name = node.name
                    if name.lower() not in seg.lower() and "\\" not in seg:
                        where = ("synthesised" if name.lower() not in sql.lower() else "in_hint" if node.find_ancestor(exp.Hint) else
                                 f"{type(node.parent).__name__}.{node.arg_key}")
                        record("node.span", dialect, "nodes", sql, f"[{where}] identifier {name!r} records span {m['start']}..{m['end']} = {seg!r}")
                    elif 0 <= m["end"] < len(sql) and (m.get("line"), m.get("col")) != pos[m["end"]]:
                        record("node.linecol", dialect, "nodes", sql, f"identifier {name!r} records line/col {(m.get('line'), m.get('col'))}, text position {pos[m['end']]}")
            elif isinstance(node, (exp.Star, exp.Literal)):
                # positions recorded on other leaves: a star that is written in the text must select its `*`, a literal whose text
                # occurs in the statement must select a lexeme containing it (synthesised stars / literals have no lexeme: not judged)
                m = node._meta or {}
                if isinstance(m.get("start"), int) and isinstance(m.get("end"), int):
                    seg = sql[m["start"]:m["end"] + 1]
                    if isinstance(node, exp.Star):
                        # (a star synthesised for FROM-first / pipe syntax carries the default position 0..0 and has no lexeme)
                        if "*" in sql and not node.find_ancestor(exp.Hint) and not (m["start"] == 0 and m["end"] == 0 and sql[:1] != "*"):
                            res["nodes_checked"] += 1
                            if seg != "*":
                                record("node.span", dialect, "nodes", sql, f"[Star] the star records span {m['start']}..{m['end']} = {seg!r}")
                            elif 0 <= m["end"] < len(sql) and (m.get("line"), m.get("col")) != pos[m["end"]]:
                                record("node.linecol", dialect, "nodes", sql, f"star records line/col {(m.get('line'), m.get('col'))}, text position {pos[m['end']]}")
                    else:
                        text = str(node.this)
                        if text and text.lower() in sql.lower() and "\\" not in text and "'" not in text and not node.find_ancestor(exp.Hint):
                            res["nodes_checked"] += 1
                            if text.lower() not in seg.lower():
                                record("node.span", dialect, "nodes", sql, f"[Literal] literal {text!r} records span {m['start']}..{m['end']} = {seg!r}")
    # (c) single-token deletions / duplications -> ParseError entries
    variants = []
    for i in range(len(tokens)):
        a, b = tokens[i].start, tokens[i].end + 1
        variants.append(sql[:a] + sql[b:])
        variants.append(sql[:b] + " " + sql[a:b] + sql[b:])
    for v in variants:
        res["evaluations"] += 1
        try:
            vt = L.D.tokenize(v)
        except Exception:
            continue
        for level in (ErrorLevel.RAISE, ErrorLevel.IMMEDIATE):
            try:
                L.D.parser(error_level=level).parse(vt, v)
            except ParseError as e:
                for err in e.errors:
                    res["errors_checked"] += 1
                    p = error_problem(v, vt, err)
                    if p:
                        record("parseerror", dialect, "errors", v, p)
            except Exception:
                pass


def error_problem(sql, tokens, err):
    hl, sc, ec = err.get("highlight"), err.get("start_context"), err.get("end_context")
    if hl is None:
        return None
    pos = ref_positions(sql, True)
    cands = [t for t in tokens if 0 <= t.start <= t.end < len(sql) and sql[t.start:t.end + 1] == hl]
    if not cands:
        if not tokens and hl == "":
            return None
        return f"highlight {hl!r} is not the lexeme of any token"
    for t in cands:
        if sql[:t.start].endswith(sc or "") and sql[t.end + 1:].startswith(ec or "") and (err.get("line"), err.get("col")) == (t.line, t.col):
            return None
    return f"highlight {hl!r} with context does not match a token at line {err.get('line')}, col {err.get('col')}"


def run(ctx: Ctx) -> None:
    quick = ctx.quick
    dialects = all_dialects()
    plan = []
    for d in dialects:
        plan.append(("chars", d, 4 if quick else 5))
    for d in (QUICK_DIALECTS if quick else dialects):
        plan.append(("lexemes", d, 3 if quick else 3, JOINERS_QUICK if quick else JOINERS))
    for d in (QUICK_DIALECTS if quick else dialects):
        plan.append(("errors", d, 1))
    for d in dialects:
        plan.append(("reuse", d))
    by_d = {}
    for d, sql in corpus.dialect_test_sql():
        by_d.setdefault(d, []).append(sql)
    for d, sqls in sorted(by_d.items()):
        for i in range(0, len(sqls), 200):
            plan.append(("corpus", d, sqls[i:i + 200], not quick))
    res = ctx.run_shards(worker, ctx.jobs * 3, plan)
    viol: dict = {}
    for k, v in res["viol"]:
        if k in viol:
            viol[k]["count"] += v["count"]
            if len(v["sql"]) < len(viol[k]["sql"]):
                viol[k].update(sql=v["sql"], msg=v["msg"], space=v["space"])
        else:
            viol[k] = v
    for (code, d, shape), v in sorted(viol.items()):
        sig = f"C13|{code}|{d}|{shape}"
        ctx.violation(sig, f"[{d}] input {v['sql']!r}: {v['msg']}", {"dialect": "" if d == "base" else d, "sql": v["sql"], "space": v["space"]}, v["count"])
    ctx.evidence(
        "exploration",
        {
            "evaluations": res["evaluations"],
            "distinct_nontrivial": res["nontrivial"],
            "rule": "all character strings of length <= L over a per-dialect alphabet (whitespace kinds, CR/LF, multi-byte characters, every "
                    "quote/identifier delimiter, comment markers, number characters) in every dialect; all sequences of <= 3 lexemes from a "
                    "~35-entry menu joined by every separator; every single-token deletion/duplication of G_core (k<=1) statements for "
                    "ParseError entries; identifier position meta on G_core parses; the same three oracles on every statement of tests/dialects/*.py "
                    "in its own dialect, as written and with every inter-token gap turned into LF / CRLF+TAB; every ordered pair (11 x 6 inputs) on one "
                    "reused Tokenizer per dialect. non-trivial = inputs with >= 2 tokens and a line break or "
                    "multi-byte character.",
            "tokens_checked": res["tokens"],
            "parse_error_entries_checked": res["errors_checked"],
            "node_positions_checked": res["nodes_checked"],
            "max_chars": 4 if quick else 5,
            "exhaustive": True,
            "samples": res["samples"][:4],
        },
        ["for inputs containing a lone carriage return only offsets are judged, not line/col (no line-terminator convention is specified)",
         "token.col / token.line are taken to describe the token's last character (what the tokenizer records)"],
    )


def replay(ctx: Ctx, case: dict) -> bool:
    logging.disable(logging.CRITICAL)
    res = {"evaluations": 0, "nontrivial": 0, "viol": {}, "samples": [], "tokens": 0, "errors_checked": 0, "nodes_checked": 0}
    found = []

    def record(code, dialect, space, sql, msg):
        found.append((code, sql, msg))

    if case.get("space") == "errors":
        toks = lex_for(case["dialect"]).D.tokenize(case["sql"])
        for level in (ErrorLevel.RAISE, ErrorLevel.IMMEDIATE):
            try:
                lex_for(case["dialect"]).D.parser(error_level=level).parse(toks, case["sql"])
            except ParseError as e:
                for err in e.errors:
                    p = error_problem(case["sql"], toks, err)
                    if p:
                        found.append(("parseerror", case["sql"], p))
            except Exception:
                pass
    elif case.get("space") == "nodes":
        errors_and_nodes(case["sql"], case["dialect"], res, record)
        found[:] = [f for f in found if f[0].startswith("node")]
    else:
        one(case["sql"], case["dialect"], case.get("space", "chars"), res, record)
    for f in found:
        print(f)
    return bool(found)
