"""C02 - transpilation preserves query results on real engines.

Every G_q query with cost <= k, for the four pairs sqlite->duckdb, duckdb->sqlite, sqlite->sqlite,
duckdb->duckdb: run the source text on the source engine and sqlglot.transpile(read=src, write=dst) on
the destination engine, on every database of a family (all instances with <= 1 row per table over the
mentioned columns' NULL-bearing domains, plus rich multi-row instances); compare row multisets and the
order of ORDER BY keys. A source-engine error removes the case; a generator 'unsupported' warning marks
it declared-unsupported; a destination error or different rows is a violation."""
from __future__ import annotations

import itertools
import logging

import sqlglot
from sqlglot import exp
from sqlglot.errors import ErrorLevel, SqlglotError, UnsupportedError

from vlib import oracle_engines as oe
from vlib.grammar_q import SCHEMA, queries
from vlib.run import Ctx

DOM = {"a": (None, 0, 1, 2), "b": (None, 0, 1, 2), "c": (None, 0, 1, 2), "s": (None, "", "a", "B"),
       "ts": (None, "2020-01-02 03:04:05", "1999-12-31 23:59:59")}
DEFAULT = {"a": 1, "b": 1, "c": 1, "s": "a", "ts": "2020-01-02 03:04:05"}
RICH = [
    {"t": [(1, 1, "a", "2020-01-02 03:04:05"), (1, 1, "a", "2020-01-02 03:04:05"), (2, None, "B", "1999-12-31 23:59:59"), (None, 2, None, None),
           (None, None, "", "2020-01-02 00:00:00"), (0, 2, "ab", "2021-06-15 12:30:45"), (2, 0, "A", None), (1, 2, "b", "2020-01-02 03:04:06")],
     "u": [(1, 1), (1, 2), (None, 1), (2, None), (3, 3), (2, 2), (2, 2), (0, 0)]},
    {"t": [(None, None, None, None), (None, None, None, None), (1, None, "a", None)], "u": [(None, None), (1, None)]},
    {"t": [(2, 1, "B", "1999-12-31 23:59:59"), (1, 2, "a", "2020-01-02 03:04:05"), (0, 0, "", "2000-02-29 00:00:01")], "u": []},
]
PAIRS = [("sqlite", "duckdb"), ("duckdb", "sqlite"), ("sqlite", "sqlite"), ("duckdb", "duckdb")]


GENERIC_CONTAINERS = {"scan", "proj_int", "proj_text", "proj_cond", "filter", "distinct", "cte"}


def culprit_tags(tags):
    """Signature tags: the generic containers an expression merely sits in are dropped when anything else remains."""
    rest = [t for t in tags if t not in GENERIC_CONTAINERS]
    return tuple(rest) if rest else tuple(tags)


def mentioned(tree):
    cols = {c.name for c in tree.find_all(exp.Column)}
    t_cols = [c for c in ("a", "b", "s", "ts") if c in cols]
    u_cols = [c for c in ("b", "c") if c in cols]
    tables = {t.name for t in tree.find_all(exp.Table)}
    return t_cols if "t" in tables else None, u_cols if "u" in tables else None


def family(tree):
    t_cols, u_cols = mentioned(tree)
    fams = list(RICH)

    def rows_for(table, cols):
        names = list(SCHEMA[table])
        if cols is None:
            return [[]]
        out = [[]]
        for combo in itertools.product(*[DOM[c] for c in cols]):
            row = dict(DEFAULT)
            row.update(zip(cols, combo))
            out.append([tuple(row[n] for n in names)])
        return out

    for tr in rows_for("t", t_cols):
        for ur in rows_for("u", u_cols):
            fams.append({"t": tr, "u": ur})
    return fams


def worker(shard, nshards, plan):
    logging.disable(logging.CRITICAL)
    res = {"evaluations": 0, "nontrivial": 0, "unsupported": 0, "source_rejects": 0, "viol": {}, "samples": [], "queries": 0}
    duck = oe.Duck(SCHEMA, {})

    def run_on(engine, sql_text, data):
        if engine == "sqlite":
            s = oe.Sqlite(SCHEMA, data)
            try:
                return s.run(sql_text)
            finally:
                s.close()
        duck.reset(SCHEMA, data)
        return duck.run(sql_text)

    def record(sig, sql, out, data, msg):
        v = res["viol"].get(sig)
        if v is None:
            res["viol"][sig] = {"sql": sql, "out": out, "data": data, "msg": msg, "count": 1}
        else:
            v["count"] += 1

    idx = 0
    for src, dst, items in plan:
        for cost, sql, tags in items:
            idx += 1
            if idx % nshards != shard:
                continue
            res["queries"] += 1
            try:
                tree = sqlglot.parse_one(sql, read=src)
                try:
                    out = tree.sql(dst, unsupported_level=ErrorLevel.RAISE)
                except UnsupportedError:
                    res["unsupported"] += 1
                    continue
            except SqlglotError as e:
                record(f"transpile_error|{src}->{dst}|{'+'.join(culprit_tags(tags))}", sql, None, None, f"transpile raised {type(e).__name__}: {str(e)[:80]}")
                continue
            except Exception:
                continue  # C05
            order_pos = oe.order_positions(tree)
            total = oe.order_is_total(tree)
            limited = oe.has_limit(tree)
            if limited and order_pos is None and not total:
                continue
            if out != sql:
                res["nontrivial"] += 1
            bad = None
            for data in family(tree):
                try:
                    ref = run_on(src, sql, data)
                except oe.EngineError:
                    res["source_rejects"] += 1
                    continue
                res["evaluations"] += 1
                try:
                    got = run_on(dst, out, data)
                except oe.EngineError as e:
                    bad = (data, f"target engine rejects the transpiled text: {str(e)[:120]}")
                    break
                why = oe.compare_results(ref[1], got[1], order_pos, total)
                if why:
                    bad = (data, f"{why}: {src} returns {oe.norm_rows(ref[1])[:5]}, {dst} returns {oe.norm_rows(got[1])[:5]}")
                    break
            if bad:
                record(f"result|{src}->{dst}|{'+'.join(culprit_tags(tags))}", sql, out, bad[0], bad[1])
            if len(res["samples"]) < 2 and idx % 211 == shard:
                res["samples"].append({"pair": f"{src}->{dst}", "sql": sql, "transpiled": out})
    duck.close()
    res["viol"] = list(res["viol"].items())
    return res


def run(ctx: Ctx) -> None:
    quick = ctx.quick
    k = 2 if quick else 3
    plan = []
    for src, dst in PAIRS:
        items = list(queries(src, k))
        if not quick and src == dst:
            items = [x for x in items if x[0] <= 2]
        plan.append((src, dst, items))
    res = ctx.run_shards(worker, ctx.jobs * 4, plan)
    viol = {}
    for sig, v in res["viol"]:
        if sig in viol:
            viol[sig]["count"] += v["count"]
        else:
            viol[sig] = v
    keys = list(viol)

    def parts(sig):
        p = sig.split("|")
        return p[0], p[1], set(p[2].split("+"))

    for sig in sorted(keys):
        v = viol[sig]
        kind, pair, tags = parts(sig)
        if any(o != sig and parts(o)[0] == kind and parts(o)[1] == pair and parts(o)[2] < tags for o in keys):
            continue
        ctx.violation("C02|" + sig, f"[{pair}] `{v['sql']}` -> `{v['out']}` on {v['data']}: {v['msg']}",
                      {"sql": v["sql"], "pair": pair, "data": v["data"]}, v["count"])
    ctx.evidence(
        "exploration",
        {
            "evaluations": res["evaluations"],
            "distinct_nontrivial": res["nontrivial"],
            "rule": f"every G_q query with cost <= {k} (arithmetic with every parenthesisation incl. division / modulo / unary minus, ||, "
                    "comparisons, AND/OR/NOT mixes, CASE / COALESCE / NULLIF / IFNULL / IIF / MIN-LEAST, string functions, CAST, STRFTIME with "
                    "10 formats, joins of every kind, GROUP BY / HAVING / DISTINCT, set operations, IN / NOT IN / EXISTS / scalar subqueries, "
                    "CTEs, windows, ORDER BY x {ASC,DESC} x {-, NULLS FIRST, NULLS LAST}, LIMIT/OFFSET; DuckDB side also QUALIFY, DISTINCT ON, "
                    "SEMI/ANTI JOIN, bare OFFSET) x 4 dialect pairs x every database with <= 1 row per table over the mentioned columns' "
                    "domains (NULL-bearing ints, texts, timestamps) + 3 rich multi-row instances. non-trivial = queries whose transpiled "
                    "text differs from the source text.",
            "queries": res["queries"],
            "declared_unsupported": res["unsupported"],
            "source_engine_rejections_dropped": res["source_rejects"],
            "exhaustive": True,
            "samples": res["samples"][:4],
        },
        ["SQLite 3.40.1 and DuckDB 1.5.5; engine differences no transpiler could bridge are kept out of the grammar (see vlib/grammar_q.py)",
         "identity pairs are the control group for engine self-consistency"],
    )


def replay(ctx: Ctx, case: dict) -> bool:
    logging.disable(logging.CRITICAL)
    src, dst = case["pair"].split("->")
    data = {t: [tuple(r) for r in rows] for t, rows in (case["data"] or {}).items()}
    res = worker(0, 1, [(src, dst, [(0, case["sql"], ("replay",))])])
    for sig, v in res["viol"]:
        print(sig, v["msg"])
    return bool(res["viol"])
