"""C09 - non-mutating APIs leave their arguments untouched and copies are independent.

Single-call product: every tree (G_core k<=1 parsed in base and native dialects, identity.sql) x every
public call documented to copy (Expression.sql in EVERY target dialect with pretty/identify, transform,
builders with copy=True, optimize, expand, replace_tables, replace_placeholders, diff, lineage,
qualify/annotate/normalize on a copy). History part (model checking): all ordered pairs of calls on the
same argument - a first call may leave a cache that makes the second one mutate. Invariant: the argument's
exact fingerprint (args, comments, types, meta), its parent links and its SQL text are unchanged, and no
stale hash is left behind. Copy independence: every C08 mutation applied to a copy leaves the original
untouched and vice versa."""
from __future__ import annotations

import logging

import sqlglot
from sqlglot import exp
from sqlglot.errors import SqlglotError
from sqlglot.generator import Generator

from vlib import corpus, fingerprint as fpm, treeops
from vlib.grammar_core import statements
from vlib.run import Ctx, HarnessError

SCHEMA = {"t": {"a": "INT", "b": "INT", "c": "INT"}, "u": {"a": "INT", "b": "INT", "c": "INT"}, "v": {"a": "INT", "b": "INT"},
          "db": {"t": {"a": "INT"}}}
SCHEMA1 = {"t": {"a": "INT", "b": "INT", "c": "INT"}, "u": {"a": "INT", "b": "INT", "c": "INT"}, "v": {"a": "INT", "b": "INT"}}
QUICK_SOURCE_DIALECTS = ["", "bigquery", "duckdb", "snowflake", "tsql", "mysql"]


def all_dialects():
    return [""] + corpus.all_dialects()


def calls(dialects):
    """name -> callable(tree) (return value ignored). All use the documented default copy behaviour."""
    from sqlglot import diff as _  # noqa
    from sqlglot.diff import diff
    from sqlglot.lineage import lineage
    from sqlglot.optimizer import optimize
    from sqlglot.optimizer.annotate_types import annotate_types
    from sqlglot.optimizer.normalize_identifiers import normalize_identifiers
    from sqlglot.optimizer.qualify import qualify

    out = {}
    for d in dialects:
        out[f"sql:{d or 'base'}"] = (lambda d: lambda t: t.sql(dialect=d or None))(d)
    for d in dialects[:8]:
        out[f"sql_pretty:{d or 'base'}"] = (lambda d: lambda t: t.sql(dialect=d or None, pretty=True, identify=True))(d)
    out["transform_identity"] = lambda t: t.transform(treeops.tf_identity)
    out["transform_rename"] = lambda t: t.transform(treeops.tf_rename)
    out["transform_wrap"] = lambda t: t.transform(treeops.tf_wrap)
    out["copy"] = lambda t: t.copy()
    out["hash_eq"] = lambda t: (hash(t), t == t.copy())
    out["optimize"] = lambda t: optimize(t, schema=SCHEMA1)
    out["qualify_copy"] = lambda t: qualify(t.copy(), schema=SCHEMA1)
    out["annotate_copy"] = lambda t: annotate_types(t.copy(), schema=SCHEMA1)
    out["normalize_identifiers_copy"] = lambda t: normalize_identifiers(t.copy())
    out["expand"] = lambda t: exp.expand(t, {"t": sqlglot.parse_one("SELECT 1 AS a, 2 AS b, 3 AS c")})
    out["replace_tables"] = lambda t: exp.replace_tables(t, {"t": "zz.t"})
    out["replace_placeholders"] = lambda t: exp.replace_placeholders(t, 1, 2, p=3)
    out["diff_self_copy"] = lambda t: diff(t, t.copy())
    out["diff_other"] = lambda t: diff(t, sqlglot.parse_one("SELECT a FROM t WHERE b = 1"))
    out["diff_as_target"] = lambda t: diff(sqlglot.parse_one("SELECT a FROM t WHERE b = 1"), t)
    out["lineage"] = lambda t: lineage(t.selects[0].alias_or_name or "a", t, schema=SCHEMA1) if isinstance(t, exp.Query) and t.selects else None
    out["select"] = lambda t: t.select("zz") if isinstance(t, exp.Select) else None
    out["where"] = lambda t: t.where("zz > 1") if isinstance(t, exp.Select) else None
    out["join"] = lambda t: t.join("v", on="v.a = t.a") if isinstance(t, exp.Select) else None
    out["order_by"] = lambda t: t.order_by("zz") if isinstance(t, exp.Query) else None
    out["limit"] = lambda t: t.limit(3) if isinstance(t, exp.Query) else None
    out["group_by"] = lambda t: t.group_by("zz") if isinstance(t, exp.Select) else None
    out["with_"] = lambda t: t.with_("c9", as_="SELECT 1 AS one") if isinstance(t, exp.Query) else None
    out["union"] = lambda t: t.union("SELECT 1") if isinstance(t, exp.Query) else None
    out["subquery"] = lambda t: t.subquery("sq") if isinstance(t, exp.Query) else None
    out["and_"] = lambda t: exp.and_(t, "zz") if isinstance(t, exp.Condition) and not isinstance(t, exp.Query) else None
    out["not_"] = lambda t: exp.not_(t) if isinstance(t, exp.Condition) and not isinstance(t, exp.Query) else None
    out["alias_"] = lambda t: exp.alias_(t, "al")
    out["paren"] = lambda t: exp.paren(t)
    out["ctas"] = lambda t: t.ctas("newt") if isinstance(t, exp.Query) else None
    return out


def snapshot(t):
    try:
        sql = t.sql()
    except Exception:
        sql = None
    # link / hash problems the tree already has (an ill-linked tree returned by the parser is C08's finding, not a mutation)
    return (fpm.fingerprint(t, "exact"), sql, id(t.parent), t.arg_key, t.index, frozenset(fpm.link_problems(t)), frozenset(fpm.hash_problems(t)))


def after_problems(t, snap):
    probs = []
    fp, sql, pid, ak, ix, lp0, hp0 = snap
    if fpm.fingerprint(t, "exact") != fp:
        probs.append(("mutated", "structural fingerprint (args / comments / types / meta) changed"))
    if (id(t.parent), t.arg_key, t.index) != (pid, ak, ix):
        probs.append(("reparented", "the argument's own parent / arg_key / index changed"))
    lp = [x for x in fpm.link_problems(t) if x not in lp0]
    if lp:
        probs.append(("links", lp[0]))
    hp = [x for x in fpm.hash_problems(t) if x not in hp0]
    if hp:
        probs.append(("stale_hash", hp[0]))
    if not probs:
        try:
            s = t.sql()
        except Exception:
            s = None
        if s != sql:
            probs.append(("text", f"SQL text changed: {sql!r} -> {s!r}"))
    return probs


def worker(shard, nshards, plan, quick):
    logging.disable(logging.CRITICAL)
    res = {"states": 0, "transitions": 0, "single": 0, "viol": {}, "samples": [], "private_copy_mutated": 0, "indep": 0}
    target_dialects = all_dialects()
    C = calls(target_dialects)
    names = list(C)
    corpus_calls = ["sql:duckdb", "sql:tsql", "sql:bigquery", "sql:snowflake", "sql:spark", "sql:mysql", "sql:postgres", "sql:oracle", "sql:clickhouse",
                    "sql:presto", "sql:sqlite", "sql_pretty:base", "optimize", "qualify_copy", "annotate_copy", "transform_rename", "transform_identity",
                    "diff_self_copy", "diff_other", "replace_tables", "replace_placeholders", "copy", "hash_eq", "alias_", "paren", "subquery", "where", "limit"]
    pair_first = [n for n in names if not n.startswith("sql:")] + ["sql:base", "sql:tsql", "sql:bigquery", "sql:snowflake"]
    # witness: was the generator's private copy mutated during generation?
    orig_generate = Generator.generate
    witness = {"n": 0}

    def generate(self, expression, copy=True):
        if not copy:
            return orig_generate(self, expression, copy=copy)
        priv = expression.copy()
        fp = fpm.fingerprint(priv, "eq")
        out = orig_generate(self, priv, copy=False)
        if fpm.fingerprint(priv, "eq") != fp:
            witness["n"] += 1
        return out

    idx = 0

    def record(code, call, sql, dialect, msg):
        key = (code, call.split(":")[0] if code != "mutated" else call.rsplit(":", 1)[0] if "@node:" in call else call)
        v = res["viol"].get(key)
        if v is None:
            res["viol"][key] = {"sql": sql, "dialect": dialect, "calls": call, "msg": msg, "count": 1}
        else:
            v["count"] += 1
            if len(sql) < len(v["sql"]):
                v.update(sql=sql, dialect=dialect, calls=call, msg=msg)

    def do(name, t):
        try:
            C[name](t)
        except RecursionError:
            pass
        except Exception:
            pass  # errors are fine (C05/C14); only the argument is judged

    for kind, dialect, sqls in plan:
        for sql in sqls:
            idx += 1
            if idx % nshards != shard:
                continue
            try:
                base = sqlglot.parse_one(sql, read=dialect or None)
            except Exception:
                continue
            res["states"] += 1
            if kind == "single":
                for name in names:
                    t = base.copy() if False else sqlglot.parse_one(sql, read=dialect or None)
                    snap = snapshot(t)
                    if name.startswith("sql"):
                        Generator.generate = generate
                    try:
                        do(name, t)
                    finally:
                        Generator.generate = orig_generate
                    res["single"] += 1
                    res["transitions"] += 1
                    for code, msg in after_problems(t, snap):
                        record(code, name, sql, dialect, msg)
                # attached argument: a sub-tree that lives inside a bigger tree
                if isinstance(base, exp.Select) and base.args.get("where"):
                    for name in ("sql:base", "sql:tsql", "and_", "not_", "alias_", "paren", "transform_rename", "copy"):
                        t = sqlglot.parse_one(sql, read=dialect or None)
                        sub = t.args["where"].this
                        snap_root, snap_sub = snapshot(t), snapshot(sub)
                        do(name, sub)
                        res["transitions"] += 1
                        for code, msg in after_problems(t, snap_root) + after_problems(sub, snap_sub):
                            record(code, name + "@subtree", sql, dialect, msg)
                # EVERY node of the tree as the root of .sql(): leaves and data types into every dialect (a generator that rewrites
                # the type / literal it prints), inner nodes into the own, base and T-SQL dialects; the whole tree must stay as it was
                t = sqlglot.parse_one(sql, read=dialect or None)
                snap_root = snapshot(t)
                for ni, n in enumerate(list(t.walk())):
                    leafish = n.is_leaf() or isinstance(n, exp.DataType)
                    dl = target_dialects if leafish else sorted({dialect, "", "tsql"})
                    for d in dl:
                        try:
                            n.sql(dialect=d or None)
                        except Exception:
                            pass
                    res["transitions"] += len(dl)
                    probs = after_problems(t, snap_root)
                    if probs:
                        # which dialect did it? (fresh tree per attempt)
                        culprit = "?"
                        for d in dl:
                            t2 = sqlglot.parse_one(sql, read=dialect or None)
                            s2 = snapshot(t2)
                            try:
                                list(t2.walk())[ni].sql(dialect=d or None)
                            except Exception:
                                pass
                            if after_problems(t2, s2):
                                culprit = d or "base"
                                break
                        for code, msg in probs:
                            record(code, f"sql:{culprit}@node:{type(n).__name__}:{ni}", sql, dialect, msg)
                        t = sqlglot.parse_one(sql, read=dialect or None)
                        snap_root = snapshot(t)
                        break
            elif kind == "corpus":
                # a dialect-test statement in its own dialect: generation into its own, the base and the main target dialects and
                # the tree-level calls; the tree is re-used while it stays untouched (re-parsed after any damage)
                own = f"sql:{dialect or 'base'}"
                cnames = [own, "sql:base"] + [n for n in corpus_calls if n not in (own, "sql:base")]
                if not quick:
                    cnames = names
                t = base
                snap = snapshot(t)
                for name in cnames:
                    if name.startswith("sql"):
                        Generator.generate = generate
                    try:
                        do(name, t)
                    finally:
                        Generator.generate = orig_generate
                    res["single"] += 1
                    res["transitions"] += 1
                    probs = after_problems(t, snap)
                    for code, msg in probs:
                        record(code, name, sql, dialect, msg)
                    if probs:
                        t = sqlglot.parse_one(sql, read=dialect or None)
                        snap = snapshot(t)
            elif kind == "decorated":
                # the same statement with a comment, a meta entry and (where inferable) a type on EVERY node: (a) the non-mutating
                # calls must leave all of it untouched; (b) editing the decorations of a copy / deepcopy / transform(copy=True)
                # result must not show in the original, and vice versa (shared mutable comment lists / meta dicts / type nodes)
                import copy as _copy

                from sqlglot.optimizer.annotate_types import annotate_types as _annotate

                def decorate(t):
                    try:
                        t = _annotate(t, schema=SCHEMA1)
                    except Exception:
                        pass
                    for i, n in enumerate(t.walk()):
                        n.add_comments([f"c{i}"])
                        n.meta["k"] = [i]
                    return t

                t = decorate(sqlglot.parse_one(sql, read=dialect or None))
                snap = snapshot(t)
                for name in [n for n in names if n.startswith("sql:")][:34] + ["sql_pretty:base", "transform_identity", "copy", "optimize", "diff_self_copy", "replace_tables", "subquery", "alias_"]:
                    if name not in C:
                        continue
                    do(name, t)
                    res["single"] += 1
                    res["transitions"] += 1
                    probs = after_problems(t, snap)
                    for code, msg in probs:
                        record(code, name + "@decorated", sql, dialect, msg)
                    if probs:
                        t = decorate(sqlglot.parse_one(sql, read=dialect or None))
                        snap = snapshot(t)
                for mk_name, mk in (("copy", lambda x: x.copy()), ("deepcopy", _copy.deepcopy), ("transform", lambda x: x.transform(treeops.tf_identity))):
                    for edit_name, edit in (("add_comments", lambda n: n.add_comments(["zz"])), ("pop_comments", lambda n: n.pop_comments()),
                                            ("meta_set", lambda n: n.meta.__setitem__("k2", 1)), ("meta_list_append", lambda n: n.meta["k"].append(9)),
                                            ("comments_append", lambda n: n.comments.append("yy") if n.comments is not None else None),
                                            ("type_set", lambda n: setattr(n, "type", "TEXT")),
                                            ("type_edit", lambda n: n._type.set("nested", True) if n._type is not None and n._type is not n else None)):
                        for edit_copy in (True, False):
                            t = decorate(sqlglot.parse_one(sql, read=dialect or None))
                            c = mk(t)
                            target, other = (c, t) if edit_copy else (t, c)
                            snap = snapshot(other)
                            try:
                                for n in list(target.walk()):
                                    edit(n)
                            except Exception:
                                continue
                            res["indep"] += 1
                            res["transitions"] += 1
                            for code, msg in after_problems(other, snap):
                                record("independence." + code, f"{mk_name}:{edit_name}", sql, dialect, msg)
            elif kind == "pairs":
                for n1 in pair_first:
                    for n2 in pair_first:
                        t = sqlglot.parse_one(sql, read=dialect or None)
                        snap = snapshot(t)
                        do(n1, t)
                        do(n2, t)
                        res["transitions"] += 2
                        for code, msg in after_problems(t, snap):
                            record(code, f"{n1}>{n2}", sql, dialect, msg)
            elif kind == "independence":
                t = sqlglot.parse_one(sql, read=dialect or None)
                c = t.copy()
                if not (c == t):
                    record("copy_unequal", "copy", sql, dialect, "copy() != original")
                if fpm.node_ids(c) & fpm.node_ids(t):
                    record("copy_shares", "copy", sql, dialect, "copy shares nodes with the original")
                ws = [c, None]
                for op in treeops.enabled_ops(ws, True):
                    if op[0] in ("hash", "eq", "swap", "copy", "rule", "simplify", "cond", "builder", "alias", "transform"):
                        continue
                    for mutate_copy in (True, False):
                        t = sqlglot.parse_one(sql, read=dialect or None)
                        c = t.copy()
                        target, other = (c, t) if mutate_copy else (t, c)
                        snap = snapshot(other)
                        try:
                            treeops.apply([target, None], op)
                        except Exception:
                            continue
                        res["indep"] += 1
                        res["transitions"] += 1
                        for code, msg in after_problems(other, snap):
                            record("independence." + code, treeops.op_name(op), sql, dialect, msg)
            if len(res["samples"]) < 2 and idx % 389 == shard:
                res["samples"].append({"kind": kind, "dialect": dialect or "base", "sql": sql})
    res["private_copy_mutated"] = witness["n"]
    res["viol"] = list(res["viol"].items())
    return res


def run(ctx: Ctx) -> None:
    quick = ctx.quick
    plan = []
    srcs = QUICK_SOURCE_DIALECTS if quick else all_dialects()
    for d in srcs:
        k1 = [s for c, s, t in statements(d, 1)]
        plan.append(("single", d, k1 if (not quick or not d) else k1[::3]))
    ident = corpus.identity_sql()
    plan.append(("single", "", ident if not quick else ident[::2]))
    k0 = [s for c, s, t in statements("", 0)] + ["SELECT a, b AS x FROM t JOIN u ON t.a = u.a WHERE c > 1 GROUP BY a ORDER BY b LIMIT 3",
                                                    "WITH q AS (SELECT a FROM t) SELECT * FROM q", "SELECT a FROM t UNION SELECT a FROM u",
                                                    "a + b * 2", "a AND (b OR c)"]
    by_d = {}
    for d, sql in corpus.dialect_test_sql():
        by_d.setdefault(d, []).append(sql)
    for d, sqls in sorted(by_d.items()):
        plan.append(("corpus", d, sqls))
    from vlib.grammar_clauses import clause_statements

    cl = [sql for sql, tags in clause_statements()]
    for d in (["", "tsql", "duckdb"] if quick else ["", "tsql", "duckdb", "mysql", "postgres", "bigquery", "snowflake", "spark", "oracle", "clickhouse"]):
        plan.append(("corpus", d, cl))
    deco = k0 + [s_ for c_, s_, t_ in statements("", 1)][::(6 if quick else 1)] + [
        "WITH x AS (SELECT 1 AS a), y AS (SELECT 2 AS b) SELECT a FROM x JOIN y ON a = b", "SELECT a FROM t UNION SELECT b FROM u ORDER BY 1 LIMIT 1",
        "SELECT SUM(a) OVER (PARTITION BY b ORDER BY c) FROM t WINDOW w AS (PARTITION BY b)", "INSERT INTO t (a) SELECT a FROM u", "CREATE TABLE t (a INT NOT NULL, b TEXT)"]
    plan.append(("decorated", "", deco))
    plan.append(("pairs", "", k0 + ([] if quick else [s for c, s, t in statements("", 1)][::25])))
    plan.append(("independence", "", k0 + [s for c, s, t in statements("", 1)][::(40 if quick else 8)]))
    res = ctx.run_shards(worker, ctx.jobs * 4, plan, quick)
    viol = {}
    for k, v in res["viol"]:
        if k in viol:
            viol[k]["count"] += v["count"]
        else:
            viol[k] = v
    for (code, call), v in sorted(viol.items()):
        sig = f"C09|{code}|{call}"
        ctx.violation(sig, f"[{v['dialect'] or 'base'}] after {v['calls']} on `{v['sql']}`: {v['msg']}",
                      {"dialect": v["dialect"], "sql": v["sql"], "calls": v["calls"]}, v["count"])
    ctx.evidence(
        "model_checking",
        {
            "states": res["states"],
            "transitions": res["transitions"],
            "traces_validated_against_impl": res["transitions"],
            "evaluations": res["transitions"],
            "distinct_nontrivial": res["private_copy_mutated"],
            "rule": "states = (argument tree, cache state left by earlier calls); transitions = public non-mutating calls: .sql() into all 34 "
                    "dialects (+pretty/identify), transform x3, 14 builders, optimize, qualify/annotate/normalize_identifiers on a copy, "
                    "expand, replace_tables, replace_placeholders, diff in both roles, lineage; single calls on every tree (G_core k<=1, identity.sql; "
                    "every statement of tests/dialects/*.py in its own dialect and G_clauses (every subset of optional clauses) with 30 of the calls in quick, all in thorough), all ordered "
                    "pairs of calls on the simplest trees, calls on attached sub-trees; copy-independence under every C08 mutation at every "
                    "position. non-trivial = generations during which the generator's private copy WAS mutated (so the argument would "
                    "have been damaged without the copy).",
            "single_calls": res["single"],
            "independence_mutations": res["indep"],
            "exhaustive": True,
            "samples": res["samples"][:4],
        },
        ["cached hashes on the argument are not part of 'identical' but must not be stale",
         "exceptions raised by a call are not judged here (C05/C14), only the argument afterwards"],
    )


def replay(ctx: Ctx, case: dict) -> bool:
    logging.disable(logging.CRITICAL)
    C = calls(all_dialects())
    t = sqlglot.parse_one(case["sql"], read=case["dialect"] or None)
    if "@node:" in case["calls"]:
        d, rest = case["calls"][4:].split("@node:")
        ni = int(rest.split(":")[1])
        snap = snapshot(t)
        try:
            print(list(t.walk())[ni].sql(dialect=None if d == "base" else d))
        except Exception as e:
            print("call raised", type(e).__name__)
        probs = after_problems(t, snap)
        for p_ in probs:
            print(p_)
        return bool(probs)
    names = case["calls"].replace("@subtree", "").split(">")
    sub = t
    if "@subtree" in case["calls"]:
        sub = t.args["where"].this
    snap, snap_sub = snapshot(t), snapshot(sub)
    for n in names:
        if n in C:
            try:
                C[n](sub)
            except Exception as e:
                print("call raised", type(e).__name__)
    probs = after_problems(t, snap) + (after_problems(sub, snap_sub) if sub is not t else [])
    for p in probs:
        print(p)
    return bool(probs)
