"""C15 - results are deterministic and independent of earlier calls.

E4 process matrix: PYTHONHASHSEED in {0..S-1} x process histories (all calls in enumeration order, in
reverse order, each call twice, all permutations of small cross-dialect groups, single calls alone in a
fresh process). The digest of every call must be identical in every cell. An order-coverage witness shows
that the seeds actually produced every iteration order of the small sets involved. E2 part: histories of
length <= 3 on one reused Tokenizer / Parser / Generator / Dialect / MappingSchema must answer like a
fresh instance."""
from __future__ import annotations

import itertools
import json
import os
import subprocess
import sys
import tempfile

from vlib.run import Ctx, HarnessError, ROOT

CORE_TARGETS = ["", "duckdb", "bigquery", "snowflake", "tsql", "mysql", "spark", "postgres"]


def build_calls(quick):
    from checks.c17 import relations, render_cte, render_inline
    from vlib.grammar_bool import expressions, focused_families
    from vlib.grammar_core import statements
    from vlib.grammar_exec import queries

    calls = []

    def add(kind, *args):
        calls.append([f"c{len(calls)}", kind, *args])

    core = [s for c, s, t in statements("", 1)]
    for i, s in enumerate(core):
        d = CORE_TARGETS[i % len(CORE_TARGETS)]
        add("transpile", s, "", d)
        add("parse_repr", s, "")
        if i % 5 == 0:
            add("tokenize", s, d)
            add("pretty", s, "")
            add("parse_repr", s, d)
        if i % 7 == 0:
            add("annotate", s, "")
            add("qualify", s, "", "core")
    for d in ["duckdb", "bigquery", "snowflake", "tsql", "spark", "hive", "databricks", "trino", "athena", "presto", "clickhouse", "oracle"]:
        for s in [x for c, x, t in statements(d, 1)][::(9 if quick else 3)]:
            add("transpile", s, d, CORE_TARGETS[len(calls) % len(CORE_TARGETS)])
    # the repository's dialect-test statements, each transpiled from its own dialect (set / dict iteration in dialect-only
    # parser and generator paths: properties, options, hints, pivots, struct fields...)
    from vlib import corpus

    dts = corpus.dialect_test_sql()
    for i, (d, s) in enumerate(dts[::(2 if quick else 1)]):
        add("transpile", s, d, d if i % 2 == 0 else CORE_TARGETS[i % len(CORE_TARGETS)])
        if i % 4 == 0:
            add("parse_repr", s, d)
    # statements that make generators run their rewriting transforms (fresh alias / column names, row-number wrappers, unnest
    # rewrites, CTE column pushdown ...), into EVERY target dialect
    probes = [("WITH RECURSIVE t AS (SELECT 1 UNION ALL SELECT a + 1 FROM t WHERE a < 3) SELECT * FROM t", "postgres"),
              ("WITH RECURSIVE t AS (SELECT 1, (2 + 3) UNION ALL SELECT a + 1, a * 2 FROM t) SELECT * FROM t", "postgres"),
              ("WITH t(x, y) AS (SELECT 1, 2) SELECT * FROM t", "postgres"),
              ("SELECT a, b FROM t QUALIFY ROW_NUMBER() OVER (PARTITION BY a ORDER BY b) = 1", "duckdb"),
              ("SELECT DISTINCT ON (a) a, b + 1 FROM t ORDER BY a, b", "postgres"),
              ("SELECT EXPLODE(xs), POSEXPLODE(ys) FROM t", "spark"), ("SELECT * FROM t CROSS JOIN UNNEST(xs) AS u(x)", "presto"),
              ("SELECT x FROM UNNEST([1, 2]) AS x", "bigquery"), ("SELECT * FROM t SEMI JOIN u ON t.a = u.a ANTI JOIN v ON t.a = v.a", "duckdb"),
              ("SELECT a FROM t WHERE a = ANY(ARRAY[1, 2])", "postgres"), ("SELECT COUNT(DISTINCT a, b) FROM t", "mysql"),
              ("SELECT GENERATE_SERIES(1, 3), GENERATE_SERIES(2, 4)", "postgres"), ("SELECT * FROM (VALUES (1, 2), (3, 4))", "postgres"),
              ("SELECT a, SUM(b) FROM t GROUP BY ROLLUP (a)", "postgres"), ("SELECT * FROM t PIVOT(SUM(b) FOR a IN ('x', 'y'))", "snowflake"),
              ("SELECT ARRAY_AGG(a ORDER BY b), ARRAY_AGG(c ORDER BY d) FROM t", "postgres"), ("SELECT 1 UNION ALL SELECT 2 ORDER BY 1 LIMIT 1", "tsql")]
    from vlib import corpus as _c

    for s_, r_ in probes:
        for w_ in [""] + _c.all_dialects():
            add("transpile", s_, r_, w_)
    # star expansion over set operations BY NAME (column sets with >= 3 members, every side / kind)
    for side in ("", "INNER ", "LEFT ", "FULL "):
        for op in ("UNION ALL", "UNION", "INTERSECT", "EXCEPT"):
            add("qualify", f"SELECT * FROM (SELECT 1 AS alpha, 2 AS beta, 3 AS gamma, 4 AS delta {side}{op} BY NAME SELECT 5 AS gamma, 6 AS beta, 7 AS alpha, 8 AS eps) AS t", "duckdb", "core")
    qs = [s for c, s, t in queries(2, opt_extras=True)]
    for s in qs[::(2 if quick else 1)]:
        add("optimize", s, "duckdb", "opt")
    for s in qs[::9]:
        add("qualify", s, "", "opt")
    bools = [s for c, s, t in expressions(2)]
    fam = [s for f, s in focused_families()]
    # connectors with 2-4 distinct operands: the sets whose iteration order could leak
    multi = ["p AND q AND r", "q AND p AND r", "r OR p OR q", "(p AND q) OR (q AND r) OR (r AND p)", "x = 1 AND y = 2 AND p", "p AND x = 1 AND y = x",
             "(p OR q) AND (q OR r) AND (p OR r)", "x > 1 AND x > 2 AND x > 3", "x = 1 OR x = 2 OR x = 3 OR y = 1", "p AND NOT q AND r AND NOT p",
             "(x = 1 AND p) OR (x = 1 AND q) OR (x = 1 AND r)", "COALESCE(x, y, 1) = 1 AND p AND q", "y = x AND x = 1 AND p AND q"]
    for s in bools[::(6 if quick else 2)] + fam[::(5 if quick else 2)] + multi:
        add("simplify", s, 0)
        add("normalize", s, 0)
    for s in bools[::(40 if quick else 10)] + multi:
        add("simplify", s, 1)
        add("normalize", s, 1)
        add("simplify_typed", s)
    # twins that are EQUAL under Expr.__eq__ / __hash__ (which fold the case of most string args and ignore comments) but differ as
    # text: a memo keyed by expressions would hand one twin the other's answer, depending on which came first (forward vs reverse)
    kinds = {"json_key": ("j -> '{k}'", "postgres"), "json_key2": ("j ->> '{k}'", "postgres"), "udt": ("CAST(x AS {k})", ""), "collate": ("s COLLATE {k}", ""),
             "param": ("@{k}", ""), "placeholder": (":{k}", ""), "var_unit": ("DATE_TRUNC({k}, d)", ""), "dot": ("t.{k}", ""), "func": ("{k}(x)", ""),
             "comment": ("x /* {k} */", "")}
    spellings = [("ID", "batch"), ("id", "batch"), ("Id", "Batch"), ("iD", "BATCH")]
    for kn, (tmpl, d) in kinds.items():
        for k1, k2 in spellings:
            e1, e2 = tmpl.format(k=k1), tmpl.format(k=k2)
            for cond in (f"{e1} = 7 AND {e2} = 1", f"{e2} = 1 AND {e1} = 7", f"{e1} = 7 OR {e2} = 1 OR {e1} = 8", f"{e1} = {e2} AND {e2} = 1"):
                add("simplify_d", cond, d)
                add("optimize", f"SELECT a FROM x WHERE {cond.replace('j ->', 'x.a ->').replace('t.', 'x.')}", d, "opt")
    # one join whose condition refers to SEVERAL cross-joined tables (sets / dicts of table names with more than one member: which
    # cross join receives the predicate, and the resulting join order, must not depend on how those collections iterate)
    conds = ["t.a + u.a = z.a", "u.a = z.a AND v.a = z.a", "t.a + u.a = z.a AND v.b = z.b", "t.a = z.a AND u.b = z.b AND v.a = z.a", "t.a + u.a + v.a = z.a",
             "t.a = z.a AND u.a = z.b", "u.a + v.a = z.a AND t.b = z.b", "t.a = u.a AND u.b = v.b AND v.a = z.a"]
    for cnd in conds:
        add("optimize", f"SELECT * FROM t CROSS JOIN u CROSS JOIN v JOIN t AS z ON {cnd}", "", "core")
        add("optimize", f"SELECT t.b FROM t, u, v, t AS z WHERE {cnd}", "", "core")
        add("optimize", f"SELECT z.a FROM v CROSS JOIN u CROSS JOIN t JOIN t AS z ON {cnd}", "duckdb", "core")
        add("optimize", f"SELECT COUNT(*) AS n FROM t AS z, t, u, v WHERE {cnd} AND t.c = 1", "", "core")
    for r in relations(2)[::(4 if quick else 1)]:
        sql = render_cte(r)
        for name, _ in r.cols:
            add("lineage", sql, name)
    return calls


def keyword_words():
    """Every word that is a key (or string value) of a class-level table of any dialect's tokenizer, parser or Dialect class
    (keywords, function names, no-paren function parsers, property / statement / constraint parsers, date-part and time
    mappings, interval units ...). Probed in identifier / alias / function / table / type / unit position (procmatrix.KW_SHAPES):
    the digests depend on exactly the tables that a call, an import or a subclass may leave modified."""
    import re

    from sqlglot.dialects.dialect import Dialect
    from vlib import corpus

    pat = re.compile(r"^[A-Z_][A-Z0-9_]*$")
    words: set[str] = set()
    for d in [""] + corpus.all_dialects():
        D = Dialect.get_or_raise(d or None)
        for cls in (D.tokenizer_class, D.parser_class, type(D)):
            for a in sorted(dir(cls)):
                if not a.isupper():
                    continue
                v = getattr(cls, a, None)
                if isinstance(v, (dict, set, frozenset, tuple, list)):
                    for k in list(v) + (list(v.values()) if isinstance(v, dict) else []):
                        if isinstance(k, str):
                            for w in k.upper().split():
                                if pat.match(w):
                                    words.add(w)
    return sorted(words)


def witness_calls():
    sets = [["a", "b"], ["p", "q", "r"], ["x = 1", "y = 2", "p"], ["t1", "t2", "t3"], ["x", "y"], ["alpha", "beta", "gamma", "delta"]]
    return [[f"w{i}", "setorder", s] for i, s in enumerate(sets)]


def reuse_calls(quick):
    out = []
    # (inputs ending in a line break / inside a comment / with a lone CR leave the cursor state of the previous run visible)
    tok_inputs = ["SELECT 1", "SELECT 'unterminated", "SELECT /* c */ a -- x\n, b", "SELECT $$x$$", "SELECT 1\n", "SELECT 2 -- c\n", "SELECT 3\r",
                  "\n\nSELECT 'a\nb' /* open"]
    par_inputs = ["SELECT a FROM t", "SELECT FROM", "SELECT a b c d", "SELECT (a", "WITH c AS (SELECT 1) SELECT * FROM c"]
    gen_inputs = ["SELECT a FROM t", "SELECT * FROM UNNEST(x)", "SELECT a FROM UNNEST(x) CROSS JOIN UNNEST(y)", "SELECT CAST(a AS STRUCT<b INT>) FROM t",
                  "SELECT a FROM t QUALIFY ROW_NUMBER() OVER (ORDER BY a) = 1", "SELECT `odd name` FROM t", "SELECT JSON_EXTRACT(a, '$.b') FROM t"]
    sch_inputs = [("names", "t"), ("add", ["u", {"b": "TEXT"}]), ("add", ["t", {"a": "TEXT", "z": "INT"}]), ("type", ["t", "a"]), ("names", "u"),
                  ("add", ["d.t", {"q": "INT"}]), ("names", "x")]
    n = 0
    for comp, inputs, dialects in (("tokenizer", tok_inputs, ["", "postgres", "mysql"]), ("parser", par_inputs, ["", "tsql", "bigquery"]),
                                   ("generator", gen_inputs, ["", "bigquery", "tsql", "spark", "snowflake", "presto"]),
                                   ("dialect", par_inputs[:1] + gen_inputs[:3], ["", "bigquery", "duckdb"]), ("schema", sch_inputs, ["", "snowflake"])):
        for d in dialects:
            for ln in (1, 2, 3):
                for hist in itertools.product(inputs, repeat=ln):
                    if comp == "generator" and d != "" and hist[-1].startswith("SELECT `"):
                        continue
                    out.append([f"r{n}", "reuse", comp, d, list(hist)])
                    n += 1
    return out


def run_process(seed, specs, tmpdir, tag):
    spec_path = os.path.join(tmpdir, f"{tag}.spec.json")
    out_path = os.path.join(tmpdir, f"{tag}.out.json")
    json.dump(specs, open(spec_path, "w"))
    env = dict(os.environ, PYTHONHASHSEED=str(seed), PYTHONDONTWRITEBYTECODE="1", PYTHONPATH=(os.environ["VERIF_REPO"] + os.pathsep + ROOT) if os.environ.get("VERIF_REPO") else ROOT)
    return subprocess.Popen([sys.executable, "-m", "vlib.procmatrix", spec_path, out_path], env=env, cwd=ROOT,
                            stdout=subprocess.DEVNULL, stderr=subprocess.PIPE), out_path


def run(ctx: Ctx) -> None:
    quick = ctx.quick
    S = 24 if quick else 64
    calls = build_calls(quick)
    wit = witness_calls()
    reuse = reuse_calls(quick)
    kw_words = keyword_words()
    by_id = {c[0]: c for c in calls + wit + reuse}
    tmpdir = tempfile.mkdtemp(prefix="verif_c15_")
    cells = []   # (label, seed, specs)
    for seed in range(S):
        cells.append((f"seed{seed}/forward", seed, calls + wit))
    for seed in range(0, S, 2 if quick else 1):
        cells.append((f"seed{seed}/reverse", seed, list(reversed(calls)) + wit))
    for seed in (0, 1, 5):
        # every call twice in a row (seed 0: all of them; two more seeds: every third)
        twice = [x for c in (calls if seed == 0 else calls[::3]) for x in (c, [c[0] + "#2"] + c[1:])]
        cells.append((f"seed{seed}/twice", seed, twice))
    # all permutations of cross-dialect groups of 3 (cold import order effects), each in its own process
    groups = [[("SELECT a FROM t LIMIT 1", "", "hive"), ("SELECT a FROM t LIMIT 1", "", "spark"), ("SELECT a FROM t LIMIT 1", "", "databricks")],
              [("SELECT TOP 1 a FROM t", "tsql", "fabric"), ("SELECT a FROM t LIMIT 1", "", "tsql"), ("SELECT a FROM t", "", "athena")],
              [("SELECT a::INT FROM t", "postgres", "redshift"), ("SELECT a FROM t", "", "trino"), ("SELECT a FROM t", "presto", "athena")],
              [("SELECT a FROM t", "mysql", "doris"), ("SELECT a FROM t", "mysql", "starrocks"), ("SELECT IFNULL(a, 1) FROM t", "mysql", "singlestore")]]
    perm_ids = {}
    for gi, g in enumerate(groups):
        specs = [[f"g{gi}_{j}", "transpile", s, r, w] for j, (s, r, w) in enumerate(g)]
        for s in specs:
            by_id[s[0]] = s
        for pi, perm in enumerate(itertools.permutations(specs)):
            cells.append((f"group{gi}/perm{pi}", 0, list(perm)))
    # alone in a fresh process (canonical for history independence)
    step = max(1, len(calls) // (48 if quick else 200))
    alone = calls[::step]
    for c in alone:
        cells.append((f"alone/{c[0]}", 0, [c]))
    # cold vs warm: every dialect's own G_core statements (k <= 1) generated in a process that has loaded nothing but that
    # dialect, and in a process that loaded every other dialect first (class-level tables copied at import time, lazily
    # registered dialects, metaclass side effects)
    from vlib import corpus as _corpus
    from vlib.grammar_core import statements as _statements

    all_d = _corpus.all_dialects()
    coldwarm = []
    for d in all_d if not quick else all_d:
        specs = [[f"cw_{d}_{j}", "transpile", s_, d, d] for j, (c_, s_, t_) in enumerate(_statements(d, 1))][::(2 if quick else 1)]
        # probes for tables the dialect metaclass edits at class-creation time (JSON path parts), read by d and by base
        probes = ["SELECT JSON_EXTRACT(a, '$.x[*].y') FROM t", "SELECT JSON_EXTRACT(a, '$..y') FROM t", "SELECT JSON_EXTRACT(a, '$.x[0:2]') FROM t",
                  "SELECT JSON_EXTRACT(a, '$.x[?(@.y)]') FROM t", "SELECT JSON_EXTRACT(a, '$.*') FROM t", "SELECT JSON_EXTRACT_SCALAR(a, '$.x[1].y') FROM t",
                  "SELECT a -> '$.x[*]' FROM t", "SELECT a ->> '$.x' FROM t"]
        specs += [[f"cw_{d}_p{j}_{r or 'b'}", "transpile", s_, r, d] for j, s_ in enumerate(probes) for r in ("", d)]
        for sp in specs:
            by_id[sp[0]] = sp
        cells.append((f"cold/{d}", 0, specs))
        cells.append((f"warm/{d}", 0, [[f"pre_{d}", "preload", [x for x in all_d if x != d]]] + specs))
        coldwarm.append(d)
    # keyword probes per dialect: in a process that has loaded nothing else (canonical), in a process that loaded every other
    # dialect first, and (base dialect) after the whole forward history of successful calls
    kw_dialects = CORE_TARGETS if quick else [""] + all_d
    for d in kw_dialects:
        cells.append((f"kwcold/{d}", 0, [[f"kwall_{d}", "kwall", d, kw_words]]))
        cells.append((f"kwwarm/{d}", 0, [[f"pre_{d}", "preload", [x for x in all_d if x != d]], [f"kwall_{d}", "kwall", d, kw_words]]))
    cells.append(("kwafter/", 0, calls + [["kwall_", "kwall", "", kw_words]]))
    # histories of FAILING inputs (P slices of: every token prefix / single-token deletion of every dialect-test statement); the
    # class-level tables are compared after every input and the words that entered / left one are probed at once
    P = 16
    for k in range(P):
        cells.append((f"poison/{k}", 0, [[f"poison{k}", "poison", k, P]] + calls[k % 3::3]))
    cells.append(("reuse", 0, reuse))
    cells.append(("reuse/seed3", 3, reuse))
    # run with bounded parallelism
    results = {}
    running = []
    pending = list(cells)
    crashed = []
    while pending or running:
        while pending and len(running) < ctx.jobs:
            label, seed, specs = pending.pop(0)
            p, out_path = run_process(seed, specs, tmpdir, label.replace("/", "_"))
            running.append((label, p, out_path))
        label, p, out_path = running.pop(0)
        _, err = p.communicate()
        if p.returncode != 0 or not os.path.exists(out_path):
            crashed.append((label, (err or b"").decode()[-400:]))
            continue
        results[label] = json.load(open(out_path))
    for f in os.listdir(tmpdir):
        os.unlink(os.path.join(tmpdir, f))
    os.rmdir(tmpdir)
    if crashed:
        raise HarnessError(f"matrix child failed: {crashed[:2]}")
    canonical = results["seed0/forward"]
    viol = {}
    table_leads: list = []
    aux_needed: dict = {}
    aux_pending: list = []
    compared = 0
    for label, digs in results.items():
        if label.startswith("reuse"):
            continue
        for cid, dg in digs.items():
            if cid.startswith("leads@"):
                table_leads.extend(dg)
                continue
            if "@" in cid:
                # probe made inside a poison cell right after the failing input `dg[1]` changed a class-level table
                pid_, text_, d_ = cid.split("@")[0], dg[1], dg[2]
                w_, pd_, j_ = pid_.split("|")[1:4]
                from vlib.procmatrix import kw_specs as _kw
                spec = next(sp for sp in _kw(w_, [pd_]) if sp[0] == pid_)
                ref = (results.get(f"kwcold/{pd_}") or {}).get(pid_)
                if ref is None:
                    aux_needed.setdefault(pid_, spec)
                    aux_pending.append((pid_, dg, label))
                    continue
                compared += 1
                if dg[0] != ref:
                    sig = f"C15|history|after_failing_input|{w_}|{pd_ or 'base'}"
                    viol.setdefault(sig, {"what": f"after the failing input {text_!r:.200} ({d_ or 'base'}), {spec[2]!r} ({pd_ or 'base'}) no longer gives what it gives in a cold process",
                                          "case": {"spec": spec, "cell": label, "history": [["h0", "parse_any", text_, d_]]}, "count": 0})["count"] += 1
                continue
            base_id = cid.split("#")[0]
            if base_id.startswith("w"):
                continue
            ref = canonical.get(base_id)
            if base_id.startswith("k|"):
                if label.startswith("kwcold/"):
                    continue
                ref = results[f"kwcold/{base_id.split('|')[2]}"].get(base_id)
                from vlib.procmatrix import kw_specs as _kw2
                by_id[base_id] = next(sp for sp in _kw2(base_id.split("|")[1], [base_id.split("|")[2]]) if sp[0] == base_id)
            if ref is None and base_id.startswith("cw_"):
                ref = results[f"cold/{base_id.split('_')[1]}"].get(base_id)
            if ref is None:
                # group calls: canonical is the first permutation cell of that group
                ref = results[f"group{base_id[1:].split('_')[0]}/perm0"].get(base_id) if base_id.startswith("g") else None
                if ref is None:
                    continue
            compared += 1
            if dg != ref:
                spec = by_id[base_id]
                kind = "hash_seed" if label.startswith("seed") and label.endswith("forward") else "history"
                where = "after_failing_inputs" if label.startswith("poison/") else label.split('/')[0] if label.startswith("kw") else label.split('/')[-1] if not label.startswith('seed') else label.split('/')[1]
                sig = f"C15|{kind}|{spec[1]}|{where}"
                case = {"spec": spec, "cell": label}
                if label.startswith("poison/"):
                    case["history"] = [[f"poison{label.split('/')[1]}", "poison", int(label.split('/')[1]), P]]
                elif label.startswith("kwwarm/"):
                    case["history"] = [["pre", "preload", [x for x in all_d if x != label.split('/')[1]]]]
                viol.setdefault(sig, {"what": f"call {spec[1:]!r:.300} gives a different result in cell {label} than in " + ("a cold process" if base_id.startswith("k") else "seed0/forward"),
                                      "case": case, "count": 0})["count"] += 1
    if aux_needed:
        # probes of words no table declared in that dialect: their cold answers are computed now, in one more fresh process
        tmp2 = tempfile.mkdtemp(prefix="verif_c15_")
        p_, out_ = run_process(0, list(aux_needed.values()), tmp2, "aux")
        p_.communicate()
        cold2 = json.load(open(out_))
        for f in os.listdir(tmp2):
            os.unlink(os.path.join(tmp2, f))
        os.rmdir(tmp2)
        for pid_, dg, label in aux_pending:
            compared += 1
            if dg[0] != cold2.get(pid_):
                w_, pd_ = pid_.split("|")[1:3]
                spec = aux_needed[pid_]
                sig = f"C15|history|after_failing_input|{w_}|{pd_ or 'base'}"
                viol.setdefault(sig, {"what": f"after the failing input {dg[1]!r:.200} ({dg[2] or 'base'}), {spec[2]!r} ({pd_ or 'base'}) no longer gives what it gives in a cold process",
                                      "case": {"spec": spec, "cell": label, "history": [["h0", "parse_any", dg[1], dg[2]]]}, "count": 0})["count"] += 1
    for label in ("reuse", "reuse/seed3"):
        for cid, ans in results[label].items():
            compared += 1
            if ans != "same":
                spec = by_id[cid]
                sig = f"C15|reuse|{spec[2]}|{shape_hist(spec[4])}"
                viol.setdefault(sig, {"what": f"reused {spec[2]} ({spec[3] or 'base'}) after history {spec[4]!r:.300}: {ans[:300]}",
                                      "case": {"spec": spec, "cell": label}, "count": 0})["count"] += 1
    for sig, v in sorted(viol.items()):
        ctx.violation(sig, v["what"], v["case"], v["count"])
    # order-coverage witness
    orders = {}
    for label, digs in results.items():
        if label.startswith("seed") and label.endswith("forward"):
            for cid, val in digs.items():
                if cid.startswith("w"):
                    orders.setdefault(cid, set()).add(val)
    import math

    witness = {}
    insufficient = []
    for w in wit:
        n = len(w[2])
        seen = len(orders.get(w[0], ()))
        witness["+".join(w[2])] = f"{seen} distinct (str-set, expr-set) order pairs over {S} seeds; {math.factorial(n)} orders possible per set"
        str_orders = len({eval(v)[0].__repr__() for v in orders.get(w[0], ())})
        if n <= 3 and str_orders < math.factorial(n):
            insufficient.append(f"{w[2]}: only {str_orders}/{math.factorial(n)} iteration orders realised")
    if insufficient:
        ctx.notes.append("seed bound insufficient for: " + "; ".join(insufficient))
    nontrivial = sum(1 for c in calls if c[1] in ("simplify", "normalize", "optimize", "simplify_typed", "lineage", "qualify"))
    ctx.evidence(
        "model_checking",
        {
            "states": len(cells),
            "transitions": sum(len(c[2]) for c in cells),
            "traces_validated_against_impl": compared,
            "evaluations": compared,
            "distinct_nontrivial": nontrivial,
            "rule": f"matrix cells = {S} hash seeds x forward order, {S // (2 if quick else 1)} seeds x reverse order, every call twice in a row (seed 0; every third call for 2 more seeds), all 6 permutations of 4 "
                    f"cross-dialect groups (each permutation in its own cold process), {len(alone)} calls alone in a fresh process, a cold and a warm (all other dialects "
                    f"loaded first) process per dialect running that dialect's own G_core statements, 2 reuse cells; "
                    f"{len(calls)} calls (transpile into 8 targets and from 12 source dialects, every" + (" second" if quick else "") + " statement of tests/dialects/*.py from its own dialect, tokenize, pretty, annotate, qualify, optimize on the "
                    "optimizer fragment, simplify / normalize / typed simplify on G_bool + multi-operand connectors, lineage on composed "
                    "relations); every digest must equal the seed-0 forward cell. non-trivial = calls that go through set/dict-keyed optimizer code.",
            "calls": len(calls),
            "reuse_histories": len(reuse),
            "order_coverage_witness": witness,
            "keyword_probe_words": len(kw_words),
            "keyword_probe_dialects": len(kw_dialects),
            "class_table_changes_seen_after_failing_inputs": table_leads[:20],
            "exhaustive": True,
            "samples": [calls[0], calls[len(calls) // 2], reuse[len(reuse) // 2]],
        },
        ["hash seeds are a 2^32 space: the claim is backed by the witness that every iteration order of the relevant small sets was realised",
         "exception messages are compared after masking memory addresses"],
    )


def shape_hist(hist):
    def short(x):
        s = x if isinstance(x, str) else json.dumps(x)
        return s[:24]
    return " ; ".join(short(h) for h in hist)


def replay(ctx: Ctx, case: dict) -> bool:
    spec = case["spec"]
    tmpdir = tempfile.mkdtemp(prefix="verif_c15r_")
    outs = []
    try:
        if spec[1] == "reuse":
            p, out = run_process(0, [spec], tmpdir, "r")
            p.communicate()
            ans = json.load(open(out))[spec[0]]
            print(ans)
            return ans != "same"
        if case.get("history"):
            p, out = run_process(0, case["history"] + [spec], tmpdir, "h")
            p.communicate()
            after = json.load(open(out))[spec[0]]
            p, out = run_process(0, [spec], tmpdir, "a")
            p.communicate()
            alone = json.load(open(out))[spec[0]]
            print("after the recorded history:", after, "alone:", alone)
            return after != alone
        for seed in range(8):
            p, out = run_process(seed, [spec], tmpdir, f"s{seed}")
            p.communicate()
            outs.append(json.load(open(out))[spec[0]])
        print(outs)
        return len(set(outs)) > 1
    finally:
        for f in os.listdir(tmpdir):
            os.unlink(os.path.join(tmpdir, f))
        os.rmdir(tmpdir)
