"""C11 - the Python executor returns what a reference SQL engine returns.

Every G_exec query with cost <= k is planned once and executed on EVERY database with <= r rows per
mentioned table over {NULL, 1, 2}; the result (column names, row multiset, order of ORDER BY keys) must
equal SQLite's and DuckDB's on the same data, or be an ExecuteError. A case is a violation only when the
executor disagrees with an engine while the two engines agree with each other (or only one accepts)."""
from __future__ import annotations

from vlib.paths import SQLGLOT
import logging

import sqlglot
from sqlglot import exp
from sqlglot.errors import ExecuteError, SqlglotError
from sqlglot.executor import execute
from sqlglot.executor.python import PythonExecutor
from sqlglot.executor.table import Table, Tables
from sqlglot.optimizer import optimize
from sqlglot.planner import Plan
from sqlglot.schema import ensure_schema

from vlib import oracle_engines as oe
from vlib.grammar_exec import SCHEMA, queries
from vlib.run import Ctx, HarnessError

DOMAIN = {"INT": (None, 1, 2)}
RICH = {"x": [(1, 1), (1, 1), (2, None), (None, 2), (None, None), (2, 2), (3, 1)], "y": [(1, 1), (1, 2), (None, 1), (2, None), (4, 4), (2, 2), (2, 2)]}


def to_tables(data):
    return {t: Table(columns=tuple(SCHEMA[t]), rows=[tuple(r) for r in rows]) for t, rows in data.items()}


def prepare(sql):
    tree = sqlglot.parse_one(sql)
    schema = ensure_schema(SCHEMA)
    expression = optimize(tree, schema, leave_tables_isolated=True)
    return Plan(expression), tree


def run_exec(plan, data):
    full = {t: data.get(t, []) for t in SCHEMA}
    res = PythonExecutor(tables=Tables(to_tables(full))).execute(plan)
    return list(res.columns), [tuple(r) for r in res.rows]


def frame(exc):
    import traceback

    for fr in reversed(traceback.extract_tb(exc.__traceback__)):
        if fr.filename.startswith(SQLGLOT):
            return f"{fr.filename.rsplit('/', 1)[-1]}:{fr.name}"
    return "?"


def check_query(sql, tags, dbs, duck, res, record, full_api_on=()):
    try:
        plan, tree = prepare(sql)
    except SqlglotError:
        res["refused"] += 1
        return
    except Exception as e:
        record(f"plan_crash|{type(e).__name__}|{frame(e)}", tags, sql, None, f"optimize/plan leaked {type(e).__name__}: {str(e)[:80]}")
        return
    order_pos = oe.order_positions(tree)
    tables = oe.tables_of(tree, SCHEMA)
    # LIMIT / OFFSET under an order that is not total: only the number of rows and their membership in the unlimited
    # result are determined
    free_limit = None
    top = tree
    if isinstance(top, exp.Query) and (top.args.get("limit") or top.args.get("offset")) and not oe.order_is_total(top):
        try:
            lim = int(top.args["limit"].expression.this) if top.args.get("limit") else None
            off = int(top.args["offset"].expression.this) if top.args.get("offset") else 0
            unl = top.copy()
            unl.set("limit", None)
            unl.set("offset", None)
            free_limit = (lim, off, unl.sql("sqlite"))
        except Exception:
            res["refused"] += 1
            return
    for di, data in enumerate(dbs(tables)):
        res["evaluations"] += 1
        try:
            cols, rows = run_exec(plan, data)
        except ExecuteError:
            res["execute_error"] += 1
            continue
        except RecursionError:
            continue
        except Exception as e:
            record(f"exec_crash|{type(e).__name__}|{frame(e)}", tags, sql, data, f"executor leaked {type(e).__name__}: {str(e)[:80]}")
            continue
        if di in full_api_on:
            try:
                r2 = execute(sql, schema=SCHEMA, tables=to_tables({t: data.get(t, []) for t in SCHEMA}))
                if (list(r2.columns), oe.norm_rows(r2.rows)) != (cols, oe.norm_rows(rows)):
                    # two plans of the same query over the same data disagree with each other (a plan whose result depends on
                    # the iteration order of its steps): one of the two answers is wrong whatever the engines say
                    record(f"plans_disagree|{'+'.join(tags)}", tags, sql, data,
                           f"execute() returned {oe.norm_rows(r2.rows)[:6]}, a second plan of the same query returned {oe.norm_rows(rows)[:6]}")
            except Exception:
                pass
        s = oe.Sqlite({t: SCHEMA[t] for t in tables}, data)
        try:
            if free_limit is not None:
                lim, off, unl_sql = free_limit
                try:
                    _, urows = s.run(unl_sql)
                except oe.EngineError:
                    res["engines_reject"] += 1
                    continue
                from collections import Counter

                want_n = max(0, len(urows) - off)
                if lim is not None:
                    want_n = min(want_n, lim)
                got, full = Counter(oe.norm_rows(rows)), Counter(oe.norm_rows(urows))
                if len(rows) != want_n:
                    record(f"wrong_result|{'+'.join(tags)}", tags, sql, data,
                           f"executor returned {len(rows)} row(s) {oe.norm_rows(rows)[:4]}; LIMIT {lim} OFFSET {off} of the {len(urows)}-row unlimited result {oe.norm_rows(urows)[:6]} has {want_n}")
                elif any(got[r] > full[r] for r in got):
                    record(f"wrong_result|{'+'.join(tags)}", tags, sql, data,
                           f"executor returned {oe.norm_rows(rows)[:4]}, not rows of the unlimited result {oe.norm_rows(urows)[:6]}")
                continue
            try:
                sn, srows = s.run(sql)
                s_ok = True
            except oe.EngineError:
                s_ok = False
        finally:
            s.close()
        # DuckDB only when SQLite is unavailable for the query or disagrees (tie-breaker), and on the rich instance
        verdict_s = None
        if s_ok:
            verdict_s = oe.compare_results(srows, rows, order_pos)
            if verdict_s is None and [n.lower() for n in sn] != [c.lower() for c in cols]:
                verdict_s = f"column names {cols} vs {sn}"
        if s_ok and verdict_s is None and di not in full_api_on:
            if any(c is None for r in rows for c in r) or not rows:
                res["nontrivial"] += 1
            continue
        duck.reset({t: SCHEMA[t] for t in SCHEMA}, {t: data.get(t, []) for t in SCHEMA})
        try:
            dn, drows = duck.run(tree.sql("duckdb"))
            d_ok = True
        except oe.EngineError:
            d_ok = False
        res["duckdb_runs"] += 1
        verdict_d = None
        if d_ok:
            verdict_d = oe.compare_results(drows, rows, order_pos)
            if verdict_d is None and [n.lower() for n in dn] != [c.lower() for c in cols]:
                verdict_d = f"column names {cols} vs {dn}"
        if not s_ok and not d_ok:
            res["engines_reject"] += 1
            continue
        if s_ok and d_ok and oe.compare_results(srows, drows, order_pos) is not None:
            res["engines_disagree"] += 1
            continue
        verdict = verdict_s if s_ok else verdict_d
        if verdict is None and d_ok:
            verdict = verdict_d
        if verdict:
            ref = srows if s_ok else drows
            record(f"wrong_result|{'+'.join(tags)}", tags, sql, data,
                   f"executor returned {cols} {oe.norm_rows(rows)[:6]}, engines return {oe.norm_rows(ref)[:6]} ({verdict})")


def worker(shard, nshards, plan_units, r, quick=False):
    logging.disable(logging.CRITICAL)
    res = {"evaluations": 0, "nontrivial": 0, "refused": 0, "execute_error": 0, "duckdb_runs": 0, "engines_reject": 0,
           "engines_disagree": 0, "viol": {}, "samples": [], "queries": 0}
    duck = oe.Duck(SCHEMA, {})
    cache = {}

    def dbs(tables, cost=0):
        key = (tuple(tables), quick and cost >= 2)
        if key not in cache:
            inst = list(oe.instances(SCHEMA, tables, DOMAIN, r))
            if key[1] and len(tables) > 1:
                # quick tier, two-table queries with two constructs: every instance in which at least one table
                # has <= 1 row (1000 of 3025); the thorough tier runs all of them
                inst = [d for d in inst if min(len(v) for v in d.values()) <= 1]
            cache[key] = [RICH] + inst
        return cache[key]

    def record(sig, tags, sql, data, msg):
        v = res["viol"].get(sig)
        if v is None:
            res["viol"][sig] = {"sql": sql, "data": data, "msg": msg, "count": 1}
        else:
            v["count"] += 1
            size = lambda d: sum(len(x) for x in (d or {}).values())
            if (len(sql), size(data)) < (len(v["sql"]), size(v["data"])):
                v.update(sql=sql, data=data, msg=msg)

    for i, (cost, sql, tags) in enumerate(plan_units):
        if i % nshards != shard:
            continue
        res["queries"] += 1
        check_query(sql, tags, lambda tables, _c=cost: dbs(tables, _c), duck, res, record, full_api_on=(0, 1))
        if len(res["samples"]) < 2 and i % 97 == shard:
            res["samples"].append({"sql": sql, "tags": list(tags)})
    duck.close()
    res["viol"] = list(res["viol"].items())
    return res


def run(ctx: Ctx) -> None:
    quick = ctx.quick
    k = 2 if quick else 3
    r = 2
    qs = list(queries(k, engine_extras=True, limit_extras=True))
    if not quick:
        pass
    res = ctx.run_shards(worker, ctx.jobs * 4, qs, r, quick)
    viol = {}
    for sig, v in res["viol"]:
        if sig in viol:
            viol[sig]["count"] += v["count"]
        else:
            viol[sig] = v
    # minimal tag sets only for wrong_result
    keys = list(viol)
    for sig in sorted(keys):
        v = viol[sig]
        if sig.startswith("wrong_result|"):
            tags = set(sig.split("|", 1)[1].split("+"))
            if any(o != sig and o.startswith("wrong_result|") and set(o.split("|", 1)[1].split("+")) < tags for o in keys):
                continue
        ctx.violation("C11|" + sig, f"`{v['sql']}` on {v['data']}: {v['msg']}", {"sql": v["sql"], "data": v["data"]}, v["count"])
    ctx.evidence(
        "exploration",
        {
            "evaluations": res["evaluations"],
            "distinct_nontrivial": res["nontrivial"],
            "rule": f"every G_exec query with cost <= {k} ({len(qs)} queries: scan/filter/project, inner/left/right/full/cross/self joins with "
                    "equality / inequality / residual / constant / OR conditions, USING, GROUP BY + 7 aggregates, HAVING, DISTINCT, ORDER BY with "
                    "NULLS FIRST/LAST, LIMIT/OFFSET, UNION/INTERSECT/EXCEPT [ALL], IN / NOT IN / EXISTS / scalar subqueries correlated or not, "
                    f"CTEs used once or twice, derived tables, LIMIT / OFFSET without a total order judged by row count and containment) x EVERY database with <= {r} rows per mentioned table over {{NULL,1,2}} "
                    "(55 per table" + ("; quick: for two-table queries with two constructs the 1000 of 3025 instances in which one table has <= 1 row" if quick else "") + ") + a rich instance, compared with SQLite (every case) and DuckDB (rich instance, SQLite disagreements "
                    "and SQLite-rejected queries). non-trivial = agreeing results that are empty or contain a NULL.",
            "queries": res["queries"],
            "optimizer_refused": res["refused"],
            "execute_errors_allowed": res["execute_error"],
            "duckdb_runs": res["duckdb_runs"],
            "cases_dropped_engines_disagree": res["engines_disagree"],
            "cases_dropped_both_engines_reject": res["engines_reject"],
            "exhaustive": True,
            "samples": res["samples"][:4],
        },
        ["SQLite 3.40.1 and DuckDB 1.5.5 are the oracles; a disagreement counts only when the engines agree with each other",
         "optimize+Plan are computed once per query; equivalence with the public execute() is asserted on two instances per query"],
    )


def replay(ctx: Ctx, case: dict) -> bool:
    logging.disable(logging.CRITICAL)
    res = {"evaluations": 0, "nontrivial": 0, "refused": 0, "execute_error": 0, "duckdb_runs": 0, "engines_reject": 0,
           "engines_disagree": 0, "viol": {}, "samples": [], "queries": 0}
    duck = oe.Duck(SCHEMA, {})
    data = {t: [tuple(r) for r in rows] for t, rows in (case["data"] or {}).items()}
    found = []
    check_query(case["sql"], ("replay",), lambda tables: [data], duck, res, lambda sig, tags, sql, d, msg: found.append((sig, msg)))
    for f in found:
        print(f)
    return bool(found)
