"""C19 - concurrent use from many threads gives the single-threaded answers.

Stateless preemption-bounded exploration (E3) of 2-thread harnesses whose bodies are FIRST uses from a
cold process chosen to collide (same dialect twice, subclass vs base, attribute path vs registry path,
optimizer lazy attributes, same generator class). Bound 0: both start orders; bound 1: a preemption at
every scheduling point (quick: first visit of every distinct line per thread); thorough: all points at
bound 1 and bound 2 restricted to lines that mention shared state. Oracle: every thread returns the
sequential baseline, nothing raises, no deadlock, every dialect class is constructed once and every
sqlglot module executed once. Violating schedules are replayed twice before they are believed."""
from __future__ import annotations

import linecache
import os
import sys

from vlib import sched
from vlib.run import Ctx, HarnessError


# ---------------------------------------------------------------- harness bodies (run inside the forked child)

def b_registry(name, sql, write=None):
    def body():
        import sqlglot
        from sqlglot.dialects.dialect import Dialect

        d = Dialect.get_or_raise(name)
        toks = [(t.token_type.name, t.text) for t in d.tokenize(sql)]
        return (type(d).__name__, toks, sqlglot.transpile(sql, read=name, write=write or name))
    body.__name__ = f"registry:{name}"
    return body


def b_attr(cls_name, name, sql):
    def body():
        import sqlglot
        import sqlglot.dialects as sd

        klass = getattr(sd, cls_name)
        d = klass()
        return (type(d).__name__, [(t.token_type.name, t.text) for t in d.tokenize(sql)], sqlglot.transpile(sql, read=name, write=name))
    body.__name__ = f"attr:{cls_name}"
    return body


def b_transpile(sql, read, write):
    def body():
        import sqlglot

        return sqlglot.transpile(sql, read=read, write=write)
    body.__name__ = f"transpile:{read}->{write}"
    return body


AUTO_TARGETS = ["", "tsql", "duckdb", "mysql", "snowflake"]


def b_transpile_warm(sql, read):
    """Call-time harness body: the dialects are loaded before the threads start (sched preload); the statement is generated into
    its own dialect and into five others (an identity round trip hides a wrong format / name conversion)."""
    targets = [read] + [t for t in AUTO_TARGETS if t != read]

    def body():
        import sqlglot

        out = []
        for w in targets:
            try:
                out.append(sqlglot.transpile(sql, read=read or None, write=w or None))
            except sqlglot.errors.SqlglotError as e:
                out.append("SqlglotError:" + type(e).__name__)
        return out
    body.__name__ = f"transpile:{read}->*"
    body.preload = targets
    return body


def b_optimize(sql):
    def body():
        import sqlglot
        import sqlglot.optimizer

        return sqlglot.optimizer.optimize(sqlglot.parse_one(sql), schema={"x": {"a": "INT", "b": "INT"}}).sql()
    body.__name__ = "optimizer.optimize"
    return body


def b_opt_from_import(sql):
    def body():
        import sqlglot
        from sqlglot.optimizer import qualify  # submodule fallback path

        return qualify.qualify(sqlglot.parse_one(sql), schema={"x": {"a": "INT", "b": "INT"}}).sql()
    body.__name__ = "from optimizer import qualify"
    return body


def b_opt_rules():
    def body():
        import sqlglot.optimizer

        return [r.__name__ for r in sqlglot.optimizer.RULES]
    body.__name__ = "optimizer.RULES"
    return body


def b_classes():
    def body():
        from sqlglot.dialects.dialect import Dialect

        return sorted(Dialect.classes)[:5] and len(Dialect.classes) > 30
    body.__name__ = "Dialect.classes"
    return body


DUCK = "SELECT 1 // 2, $$a$$, x::INT FROM t"
HARNESSES = [
    ("same_dialect", [b_registry("duckdb", DUCK), b_registry("duckdb", DUCK)]),
    ("subclass_vs_base", [b_registry("spark", "SELECT `a`, x RLIKE 'y' FROM t"), b_registry("hive", "SELECT `a`, x RLIKE 'y' FROM t")]),
    ("attr_vs_registry", [b_attr("DuckDB", "duckdb", DUCK), b_registry("duckdb", DUCK)]),
    ("same_generator", [b_transpile("SELECT a FROM t LIMIT 1", "", "tsql"), b_transpile("SELECT TOP 1 a FROM t", "tsql", "tsql")]),
    ("optimizer_lazy", [b_optimize("SELECT a FROM x WHERE b = 1 AND 1 = 1"), b_opt_from_import("SELECT a FROM x")]),
    ("optimizer_rules_vs_optimize", [b_opt_rules(), b_optimize("SELECT a FROM x")]),
    ("databricks_vs_spark", [b_registry("databricks", "SELECT `a` FROM t"), b_registry("spark", "SELECT `a` FROM t")]),
    ("athena_vs_trino", [b_registry("athena", "SELECT \"a\" FROM t"), b_registry("trino", "SELECT \"a\" FROM t")]),
]
THOROUGH_EXTRA = [
    ("classes_vs_lookup", [b_classes(), b_registry("duckdb", DUCK)]),
    ("three_threads", [b_registry("duckdb", DUCK), b_attr("DuckDB", "duckdb", DUCK), b_transpile(DUCK, "duckdb", "duckdb")]),
]

AUTO: list = []   # harnesses generated at run time for call-time writers of shared state (see discover_auto)


def all_harnesses():
    return dict(HARNESSES + THOROUGH_EXTRA + AUTO)


def _discover_worker(shard, nshards, writers):
    """Which dialect-test statements enter a shared-state writer function at CALL time (all dialects are loaded first, so
    import-time executions of those functions do not count)?"""
    from vlib import corpus
    import sqlglot
    from sqlglot.dialects.dialect import Dialect
    from sqlglot.errors import SqlglotError

    for d in corpus.all_dialects():
        Dialect.get_or_raise(d)
    files = {w[0] for w in writers}
    hits: dict = {}
    cur = [None]

    def prof(frame, event, arg):
        if event == "call":
            co = frame.f_code
            if co.co_filename in files and (co.co_filename, co.co_qualname) in writers:
                hits.setdefault((co.co_filename, co.co_qualname), [])
                lst = hits[(co.co_filename, co.co_qualname)]
                if cur[0] not in lst and len(lst) < 3:
                    lst.append(cur[0])

    stmts = corpus.dialect_test_sql()
    import logging

    logging.disable(logging.CRITICAL)
    for i, (d, sql) in enumerate(stmts):
        if i % nshards != shard:
            continue
        cur[0] = (i, d, sql)
        sys.setprofile(prof)
        try:
            sqlglot.transpile(sql, read=d, write=d)
        except SqlglotError:
            pass
        except Exception:
            pass
        finally:
            sys.setprofile(None)
    return {"hits": [(k, v) for k, v in hits.items()]}


def discover_auto(ctx):
    """One or two harnesses for every function OUTSIDE the hand-selected files that the AST scan (sched.shared_writers) finds
    writing shared state and that some dialect-test statement reaches at call time: that statement against itself, and against
    the next statement (another dialect where possible) reaching the same function. Empty on a tree without such functions."""
    writers = {w for w in sched.shared_writers() if w[0] not in sched.SEL_FILES and not w[1].endswith("__init_subclass__")}
    if not writers:
        return {}
    res = ctx.run_shards(_discover_worker, ctx.jobs, writers)
    found: dict = {}
    for k, lst in res.get("hits", []):
        found.setdefault(tuple(k), []).extend(tuple(x) for x in lst)
    info = {}
    for (fn, qn), lst in sorted(found.items()):
        lst = sorted(set(lst))
        (_, d1, s1) = lst[0]
        other = next(((d, s) for _, d, s in lst[1:] if d != d1), None) or next(((d, s) for _, d, s in lst[1:]), None)
        name = f"auto:{os.path.basename(fn)}:{qn}"
        AUTO.append((name + ":same", [b_transpile_warm(s1, d1), b_transpile_warm(s1, d1)]))
        AUTO_SPECS[name + ":same"] = [[s1, d1], [s1, d1]]
        if other:
            AUTO.append((name + ":pair", [b_transpile_warm(s1, d1), b_transpile_warm(other[1], other[0])]))
            AUTO_SPECS[name + ":pair"] = [[s1, d1], [other[1], other[0]]]
        info[name] = {"reached_by": [s1[:120]] + ([other[1][:120]] if other else [])}
    return info


AUTO_SPECS: dict = {}
SHARED_WORDS = ("_classes", "_DISPATCH_CACHE", "TRANSFORMS", "globals()", "sys.modules", "import_module", "_import_lock", "lock")


def mentions_shared_state(desc: str) -> bool:
    fname, func, line = desc.rsplit(":", 2)
    for f in sched.SEL_FILES + (sched.SQLGLOT + "/optimizer/optimizer.py",):
        if f.endswith("/" + fname) or os.path.basename(f) == fname:
            src = linecache.getline(f, int(line))
            if any(w in src for w in SHARED_WORDS):
                return True
    return False


def observe(res):
    return (repr(res.get("out")), res.get("deadlock"), tuple(sorted((res.get("new_calls") or {}).items())), tuple(sorted((res.get("exec_calls") or {}).items())))


def judge(res, baseline):
    """list of (code, msg)"""
    probs = []
    if "harness_error" in res:
        raise HarnessError(res["harness_error"])
    if res["deadlock"]:
        probs.append(("deadlock", "no enabled thread while some are unfinished" + (" (threads hung)" if res.get("hung") else "")))
    for i, o in enumerate(res["out"]):
        if o is None:
            probs.append(("no_result", f"thread {i} produced no result"))
        elif o[0] == "exc":
            probs.append((f"raises|{o[1]}|{o[3]}", f"thread {i} raised {o[1]}: {o[2]} (in {o[3]})"))
        elif o[0] == "deadlock":
            probs.append(("deadlock", f"thread {i}: {o[1]}"))
        elif o != baseline[i]:
            probs.append(("wrong_result", f"thread {i} returned {str(o[1])[:160]}, sequential baseline {str(baseline[i][1])[:160]}"))
    for name, n in (res.get("new_calls") or {}).items():
        if n != 1:
            probs.append((f"not_once|class:{name}", f"dialect class {name} was constructed {n} times"))
    for name, n in (res.get("exec_calls") or {}).items():
        if n != 1:
            probs.append((f"not_once|module:{name}", f"module {name} was executed {n} times"))
    return probs


def explore_unit(hname, bodies, first, points, baseline, res, record):
    """points: list of global point indices at which to preempt (bound 1) or dicts (bound 2)."""
    n = len(bodies)
    for sch in points:
        r = sched.forked(bodies, sch, first)
        res["executions"] += 1
        res["transitions"] += r.get("points", 0)
        if r.get("interleaved"):
            res["nontrivial"] += 1
        res["outcomes"].add(hash(observe(r)) & 0xFFFFFFFF)
        probs = judge(r, baseline)
        if probs:
            # believe it only after two identical replays (done for the first schedule of every signature)
            if any(f"{hname}|{code}" not in res["viol"] for code, _ in probs):
                r2, r3 = sched.forked(bodies, sch, first), sched.forked(bodies, sch, first)
                res["replays"] += 2
                if observe(r2) != observe(r) or observe(r3) != observe(r):
                    raise HarnessError(f"replay of schedule {sch} on {hname} diverged: nondeterminism not under control")
            where = r["trace"][0][2] if r.get("trace") else "?"
            for code, msg in probs:
                record(f"{hname}|{code}", hname, first, sch, where, msg)


def worker(shard, nshards, units):
    res = {"executions": 0, "transitions": 0, "nontrivial": 0, "replays": 0, "outcomes": set(), "viol": {}, "samples": []}

    def record(sig, hname, first, sch, where, msg):
        v = res["viol"].get(sig)
        if v is None:
            res["viol"][sig] = {"harness": hname, "first": first, "schedule": {str(k): v for k, v in sch.items()}, "where": where, "msg": msg, "count": 1}
        else:
            v["count"] += 1

    allh = all_harnesses()
    for i, (hname, first, sch, baseline) in enumerate(units):
        if i % nshards != shard:
            continue
        explore_unit(hname, allh[hname], first, [sch], baseline, res, record)
        if len(res["samples"]) < 2 and sch:
            res["samples"].append({"harness": hname, "first_thread": first, "schedule": {str(k): v for k, v in sch.items()}})
    res["viol"] = list(res["viol"].items())
    return res


def run(ctx: Ctx) -> None:
    quick = ctx.quick
    if any(m.startswith("sqlglot.dialects.") and m not in ("sqlglot.dialects.dialect",) for m in sys.modules):
        raise HarnessError("the check process has already imported a dialect module; executions would not start cold")
    sched.extent_writers()   # AST scan once in the parent; the forked executions inherit the result
    auto_info = discover_auto(ctx)
    harnesses = HARNESSES + ([] if quick else THOROUGH_EXTRA) + AUTO
    if os.environ.get("VERIF_DEBUG_ONLY"):   # development aid; never set by a registered command
        harnesses = [h for h in harnesses if os.environ["VERIF_DEBUG_ONLY"] in h[0]]
    units = []
    plan_info = {}
    for hname, bodies in harnesses:
        n = len(bodies)
        baseline = []
        for b in bodies:
            r = sched.forked([b], {}, 0)
            if "harness_error" in r:
                raise HarnessError(r["harness_error"])
            if r["out"][0][0] != "ok":
                raise HarnessError(f"sequential baseline of {b.__name__} failed: {r['out'][0]}")
            baseline.append(r["out"][0])
        total_points = 0
        chosen = 0
        for first in range(n):
            d = sched.forked(bodies, {}, first)
            if "harness_error" in d:
                raise HarnessError(d["harness_error"])
            units.append((hname, first, {}, baseline))
            locs = d["locations"]
            total_points += len(locs)
            seen = {}
            cap = 1 if quick else 3   # visits of one line by one thread that get a preemption (loops revisit lines)
            for k, (th, desc) in enumerate(locs):
                seen[(th, desc)] = seen.get((th, desc), 0) + 1
                if seen[(th, desc)] > cap:
                    continue
                for target in range(n):
                    if target != th:
                        units.append((hname, first, {k: target}, baseline))
                        chosen += 1
            if not quick and n == 2:
                # bound 2: second preemption only at lines that mention shared state (first two visits per line)
                shared_pts = []
                cnt = {}
                for k, (th, desc) in enumerate(locs):
                    if mentions_shared_state(desc):
                        cnt[(th, desc)] = cnt.get((th, desc), 0) + 1
                        if cnt[(th, desc)] <= 2:
                            shared_pts.append((k, th))
                for (k1, th1) in shared_pts:
                    # the second index refers to the global point counter of the run that took the first preemption
                    # (points are counted globally, so an index beyond the run's length simply never fires)
                    for (k2, th2) in shared_pts:
                        if k2 > k1:
                            units.append((hname, first, {k1: 1 - th1, k2: 1 - th2}, baseline))
                            chosen += 1
        plan_info[hname] = {"scheduling_points_in_default_runs": total_points, "schedules": chosen + n}
    res = ctx.run_shards(worker, ctx.jobs * 4, units)
    viol = {}
    for sig, v in res["viol"]:
        if sig in viol:
            viol[sig]["count"] += v["count"]
        else:
            viol[sig] = v
    for sig, v in sorted(viol.items()):
        ctx.violation("C19|" + sig, f"harness {v['harness']} (thread {v['first']} first), preemption at {v['where']} schedule {v['schedule']}: {v['msg']}",
                      {"harness": v["harness"], "first": v["first"], "schedule": v["schedule"], "auto": AUTO_SPECS.get(v["harness"])}, v["count"])
    ctx.evidence(
        "model_checking",
        {
            "states": len(res["outcomes"]) + res["executions"],
            "transitions": res["transitions"],
            "traces_validated_against_impl": res["executions"] + res["replays"],
            "evaluations": res["executions"],
            "distinct_nontrivial": res["nontrivial"],
            "rule": "stateless exploration of schedules of 2-thread first-use harnesses from a cold forked process; scheduling points = line "
                    "events in the lazy-loading / registry / dispatch-cache functions + every lock operation; preemption bound 0 (both "
                    "start orders) and 1 (" + ("first visit of every distinct line per thread" if quick else "first three visits of every distinct line per thread; bound 2 at shared-state lines") +
                    "); every execution runs to completion. non-trivial = executions in which a preemption was actually taken (the other "
                    "thread ran between two points of the first).",
            "harnesses": plan_info,
            "shared_state_writers_found_by_ast_scan": sorted(f"{os.path.relpath(f, sched.SQLGLOT)}:{q}" for f, q in sched.shared_writers()),
            "auto_harnesses": auto_info,
            "distinct_outcomes": len(res["outcomes"]),
            "replays_of_violating_schedules": res["replays"],
            "exhaustive": True,
            "samples": res["samples"][:3] or [{"harness": harnesses[0][0], "schedule": {}}],
        },
        ["GIL interleaving model at line granularity inside the selected functions; code outside them runs atomically",
         "free-running multi-thread stress is not used to decide anything"],
    )


def replay(ctx: Ctx, case: dict) -> bool:
    sched.extent_writers()   # scan once in the parent; the forked executions inherit the result
    if case.get("auto"):
        AUTO.append((case["harness"], [b_transpile_warm(s_, d_) for s_, d_ in case["auto"]]))
    allh = all_harnesses()
    bodies = allh[case["harness"]]
    baseline = [sched.forked([b], {}, 0)["out"][0] for b in bodies]
    sch = {int(k): v for k, v in case["schedule"].items()}
    r = sched.forked(bodies, sch, case["first"])
    r2 = sched.forked(bodies, sch, case["first"])
    if observe(r) != observe(r2):
        raise HarnessError("replay diverged")
    probs = judge(r, baseline)
    print("trace:", r.get("trace"))
    for p in probs:
        print(p)
    return bool(probs)
