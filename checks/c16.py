"""C16 - inferred types agree with the types the engine actually produces.

Complete depth-1 tables (every operator / function x every operand-type combination over 10 column
types + literals) and depth-2 compositions over 5 representative types; for each expression the class of
the type annotate_types infers under the DuckDB dialect must equal the class DuckDB reports through
typeof() on a one-row table. Also: annotation never changes the generated SQL."""
from __future__ import annotations

import itertools
import logging
import re

import sqlglot
from sqlglot import exp
from sqlglot.optimizer.annotate_types import annotate_types
from sqlglot.optimizer.qualify import qualify

from vlib.run import Ctx, HarnessError

COLS = {
    "c_bool": "BOOLEAN", "c_ti": "TINYINT", "c_si": "SMALLINT", "c_i": "INT", "c_bi": "BIGINT", "c_d": "DOUBLE",
    "c_dec": "DECIMAL(10, 2)", "c_s": "VARCHAR", "c_dt": "DATE", "c_ts": "TIMESTAMP",
}
VALUES = {"c_bool": "TRUE", "c_ti": "1", "c_si": "2", "c_i": "3", "c_bi": "4", "c_d": "1.5", "c_dec": "2.25", "c_s": "'5'",
          "c_dt": "DATE '2020-01-02'", "c_ts": "TIMESTAMP '2020-01-02 03:04:05'"}
LITERALS = ["1", "1.5", "'x'", "NULL", "TRUE", "DATE '2020-01-01'", "INTERVAL 1 DAY"]
REPR = ["c_i", "c_d", "c_dec", "c_s", "c_dt"]
BINOPS = ["+", "-", "*", "/", "//", "%", "||", "=", "<>", "<", "AND", "OR"]
SCHEMA = {"t": dict(COLS)}


def type_class(name: str) -> str:
    n = name.upper().strip('"')
    if n in ("NULL", "UNKNOWN", ""):
        return "unknown"
    if n.startswith(("BOOL",)):
        return "boolean"
    if re.match(r"^(U?(TINY|SMALL|BIG|HUGE)?INT(EGER)?\d*|INT\d+|UINT\d+|LONG|SHORT)\b", n):
        return "integer"
    if n.startswith(("DECIMAL", "NUMERIC", "DOUBLE", "FLOAT", "REAL", "BIGDECIMAL")):
        return "decimal"
    if n.startswith(("VARCHAR", "TEXT", "CHAR", "STRING", "NVARCHAR", "NCHAR")):
        return "text"
    if n.startswith("DATE") and not n.startswith("DATETIME"):
        return "date"
    if n.startswith(("TIMESTAMP", "DATETIME", "TIME")):
        return "timestamp"
    if n.startswith("INTERVAL"):
        return "interval"
    return "other:" + n.split("(")[0]


def expressions(quick):
    out = []
    atoms = list(COLS) + LITERALS
    for op in BINOPS:
        for l, r in itertools.product(atoms, repeat=2):
            out.append((f"bin:{op}", f"{l} {op} {r}"))
    for a in atoms:
        out.append(("un:-", f"-{a}"))
        out.append(("un:not", f"NOT {a}"))
        for ty in ("BOOLEAN", "TINYINT", "INT", "BIGINT", "DOUBLE", "DECIMAL(10, 2)", "VARCHAR", "DATE", "TIMESTAMP"):
            out.append((f"cast:{ty.split('(')[0]}", f"CAST({a} AS {ty})"))
            out.append((f"trycast:{ty.split('(')[0]}", f"TRY_CAST({a} AS {ty})"))
    for l, r in itertools.product(atoms, repeat=2):
        out.append(("case", f"CASE WHEN c_bool THEN {l} ELSE {r} END"))
        out.append(("if", f"IF(c_bool, {l}, {r})"))
        out.append(("coalesce", f"COALESCE({l}, {r})"))
        out.append(("nullif", f"NULLIF({l}, {r})"))
        out.append(("greatest", f"GREATEST({l}, {r})"))
        out.append(("least", f"LEAST({l}, {r})"))
    fns1 = ["UPPER", "LOWER", "LENGTH", "TRIM", "ABS", "ROUND", "FLOOR", "CEIL", "SQRT", "SUM", "AVG", "MIN", "MAX", "COUNT",
            "YEAR", "MONTH", "DAY", "LAST_DAY", "REVERSE", "SIGN", "LN", "EXP", "HOUR", "DAYOFWEEK", "ANY_VALUE", "FIRST", "STDDEV", "MEDIAN",
            "BIT_COUNT", "ASCII", "MD5", "HASH", "STRING_AGG", "ARRAY_AGG", "LIST"]
    for f in fns1:
        for a in list(COLS):
            out.append((f"fn:{f}", f"{f}({a})"))
    for a in COLS:
        out += [
            ("fn:substr", f"SUBSTR({a}, 1, 2)"), ("fn:concat", f"CONCAT({a}, 'x')"), ("fn:replace", f"REPLACE({a}, 'a', 'b')"),
            ("fn:power", f"POWER({a}, 2)"), ("fn:round2", f"ROUND({a}, 1)"), ("fn:extract", f"EXTRACT(YEAR FROM {a})"),
            ("fn:date_trunc", f"DATE_TRUNC('month', {a})"), ("fn:plus_interval", f"{a} + INTERVAL 1 DAY"), ("fn:minus_interval", f"{a} - INTERVAL 1 DAY"),
            ("fn:date_diff", f"DATE_DIFF('day', {a}, {a})"), ("fn:strftime", f"STRFTIME({a}, '%Y')"), ("fn:strptime", f"STRPTIME({a}, '%Y')"),
            ("win:row_number", f"ROW_NUMBER() OVER (ORDER BY {a})"), ("win:rank", f"RANK() OVER (ORDER BY {a})"), ("win:lag", f"LAG({a}) OVER (ORDER BY c_i)"),
            ("win:sum", f"SUM({a}) OVER (PARTITION BY c_i)"), ("win:avg", f"AVG({a}) OVER ()"), ("win:first_value", f"FIRST_VALUE({a}) OVER (ORDER BY c_i)"),
            ("fn:count_distinct", f"COUNT(DISTINCT {a})"), ("pred:is_null", f"{a} IS NULL"), ("pred:between", f"{a} BETWEEN {a} AND {a}"),
            ("pred:in", f"{a} IN ({a}, {a})"), ("pred:like", f"{a} LIKE 'x%'"), ("fn:typeof", f"TYPEOF({a})"), ("fn:date_part", f"DATE_PART('year', {a})"),
            ("fn:epoch", f"EPOCH({a})"), ("fn:left", f"LEFT({a}, 1)"), ("fn:lpad", f"LPAD({a}, 3, 'x')"), ("fn:strpos", f"STRPOS({a}, 'x')"),
            ("fn:to_date", f"CAST({a} AS DATE) + 1"), ("fn:date_sub", f"{a} - {a}"), ("agg:sum_filter", f"SUM({a}) FILTER (WHERE c_bool)"),
        ]
    # depth 2 over representative types
    ops2 = ["+", "-", "*", "/", "||", "="]
    for op1, op2 in itertools.product(ops2, repeat=2):
        for a, b, c in itertools.product(REPR, repeat=3):
            out.append((f"bin2:{op1}:{op2}", f"({a} {op1} {b}) {op2} {c}"))
    for f in ("ABS", "ROUND", "SUM", "MAX", "COALESCE", "UPPER", "LENGTH"):
        for op in ops2[:4]:
            for a, b in itertools.product(REPR, repeat=2):
                inner = f"{a} {op} {b}"
                out.append((f"fn_of_bin:{f}", f"{f}({inner})" if f != "COALESCE" else f"COALESCE({inner}, {b})"))
                out.append((f"bin_of_fn:{f}", f"{f}({a}) {op} {b}" if f != "COALESCE" else f"COALESCE({a}, {b}) {op} {b}"))
    for a, b, c in itertools.product(REPR, repeat=3):
        out.append(("case2", f"CASE WHEN {a} = {a} THEN {b} + {c} ELSE {c} END"))
    # intervals of every unit, bare / parenthesised / scaled / compound (two units in both orders) / chosen by COALESCE, added to or
    # subtracted from a date, a timestamp and a string, on either side (the result is a timestamp as soon as a time unit takes part)
    units = ["YEAR", "MONTH", "WEEK", "DAY", "HOUR", "MINUTE", "SECOND"]
    kind = lambda u: "dateunit" if u in ("YEAR", "MONTH", "WEEK", "DAY") else "timeunit"
    ivals = []   # (which units take part, in which order; text)
    for u in units:
        ivals += [(kind(u), f"INTERVAL 1 {u}"), (kind(u) + ".paren", f"(INTERVAL 1 {u})"), (kind(u) + ".scaled", f"INTERVAL 2 {u} * 2"), (kind(u) + ".str", f"INTERVAL '1' {u}")]
    for u1, u2 in itertools.permutations(["MONTH", "DAY", "HOUR", "SECOND"], 2):
        k = f"{kind(u1)}+{kind(u2)}"
        ivals += [(k + ".sum", f"(INTERVAL 1 {u1} + INTERVAL 1 {u2})"), (k + ".diff", f"(INTERVAL 1 {u1} - INTERVAL 30 {u2})"), (k + ".coalesce", f"COALESCE(INTERVAL 1 {u1}, INTERVAL 1 {u2})")]
    for k, iv in ivals:
        for a in ("c_dt", "c_ts", "c_s", "DATE '2020-01-01'"):
            out.append((f"interval:plus:{k}", f"{a} + {iv}"))
            out.append((f"interval:minus:{k}", f"{a} - {iv}"))
            out.append((f"interval:plus_left:{k}", f"{iv} + {a}"))
        out.append((f"interval:agg:{k}", f"MIN(c_dt + {iv})"))
        out.append((f"interval:self:{k}", f"{iv} + {iv}"))
    seen, res = set(), []
    for tag, e in out:
        if e not in seen:
            seen.add(e)
            res.append((tag, e))
    return res


def worker(shard, nshards, exprs):
    logging.disable(logging.CRITICAL)
    import duckdb

    con = duckdb.connect()
    con.execute("CREATE TABLE t (" + ", ".join(f"{c} {ty}" for c, ty in COLS.items()) + ")")
    con.execute("INSERT INTO t VALUES (" + ", ".join(VALUES[c] for c in COLS) + ")")
    res = {"evaluations": 0, "nontrivial": 0, "engine_rejects": 0, "unknown_inferred": 0, "viol": {}, "samples": [], "annotate_errors": 0}

    def record(sig, e, msg):
        v = res["viol"].get(sig)
        if v is None:
            res["viol"][sig] = {"expr": e, "msg": msg, "count": 1}
        else:
            v["count"] += 1

    for i, (tag, e) in enumerate(exprs):
        if i % nshards != shard:
            continue
        sql = f"SELECT {e} AS r FROM t"
        try:
            eng = con.execute(f"SELECT typeof({e}) FROM t").fetchall()[0][0]
        except Exception:
            res["engine_rejects"] += 1
            continue
        try:
            tree = sqlglot.parse_one(sql, read="duckdb")
            before = tree.sql("duckdb")
            q = qualify(tree, schema=SCHEMA, dialect="duckdb")
            qsql = q.sql("duckdb")
            ann = annotate_types(q, schema=SCHEMA, dialect="duckdb")
        except sqlglot.errors.SqlglotError:
            res["annotate_errors"] += 1
            continue
        except Exception as ex:
            record(f"crash|{type(ex).__name__}|{tag}", e, f"annotate_types pipeline leaked {type(ex).__name__}: {str(ex)[:80]}")
            continue
        res["evaluations"] += 1
        try:
            after = ann.sql("duckdb")
        except Exception as ex:
            record(f"sql_after_annotate|{tag}", e, f"annotated tree fails to generate: {type(ex).__name__}")
            continue
        if after != qsql:
            record(f"sql_changed|{tag}", e, f"annotation changed the SQL: {qsql!r} -> {after!r}")
        ty = ann.selects[0].type
        inferred = ty.sql("duckdb") if ty is not None else "UNKNOWN"
        ic, ec = type_class(inferred), type_class(eng)
        operand_types = sorted({COLS[c] for c in COLS if re.search(rf"\b{c}\b", e)})
        if len(operand_types) >= 2:
            res["nontrivial"] += 1
        if ic == "unknown":
            res["unknown_inferred"] += 1
            continue
        if ec == "unknown":
            continue
        if ic != ec:
            opclasses = "+".join(sorted({type_class(COLS[c]) for c in COLS if re.search(rf"\b{c}\b", e)}))
            record(f"class|{tag}|{opclasses}|{ic}!={ec}", e, f"`{e}`: inferred {inferred} ({ic}), DuckDB produces {eng} ({ec})")
        if len(res["samples"]) < 3 and i % 1201 == shard:
            res["samples"].append({"expr": e, "inferred": inferred, "engine": eng})
    res["viol"] = list(res["viol"].items())
    return res


def run(ctx: Ctx) -> None:
    exprs = expressions(ctx.quick)
    res = ctx.run_shards(worker, ctx.jobs * 2, exprs)
    viol = {}
    for sig, v in res["viol"]:
        if sig in viol:
            viol[sig]["count"] += v["count"]
        else:
            viol[sig] = v
    for sig, v in sorted(viol.items()):
        ctx.violation("C16|" + sig, v["msg"], {"expr": v["expr"]}, v["count"])
    ctx.evidence(
        "exploration",
        {
            "evaluations": res["evaluations"],
            "distinct_nontrivial": res["nontrivial"],
            "rule": "complete depth-1 tables: 12 binary operators x all ordered pairs of 17 atoms (10 typed columns BOOLEAN..TIMESTAMP + 7 "
                    "literals), unary -, NOT, CAST/TRY_CAST to 9 types, CASE/IF/COALESCE/NULLIF/GREATEST/LEAST x all atom pairs, 35 one-argument "
                    "functions/aggregates x 10 column types, 30 further function/window/predicate forms x 10 column types; depth-2: every "
                    "pair of 6 operators x all triples of 5 representative types, function-of-binary and binary-of-function compositions. "
                    "non-trivial = expressions over >= 2 different operand types (coercion exercised).",
            "expressions": len(exprs),
            "engine_rejected_outside_space": res["engine_rejects"],
            "inferred_unknown_compatible": res["unknown_inferred"],
            "exhaustive": True,
            "samples": res["samples"][:4],
        },
        ["DuckDB 1.5.5 typeof() on a one-row table of non-NULL values is the engine's verdict",
         "class-level comparison; inferred UNKNOWN and engine \"NULL\" are compatible with anything"],
    )


def replay(ctx: Ctx, case: dict) -> bool:
    res = worker(0, 1, [("replay", case["expr"])])
    for sig, v in res["viol"]:
        print(sig, v["msg"])
    return bool(res["viol"])
