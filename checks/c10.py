"""C10 - qualification is complete, idempotent and faithful to dialect identifier rules.

E1 enumeration of G_qual (cost <= k) x identifier spellings x dialects covering every normalisation
strategy. Oracle on the result of qualify: every table aliased; every column bound to a source visible
at that point (own FROM/JOIN sources or an enclosing query's) or an ORDER BY reference to an output name;
no star left, expansions in schema order; output names unchanged; qualify(qualify(q)) == qualify(q), also
through the text; DuckDB returns the same rows for original and qualified text on a database whose
columns hold distinct values. Separately: normalize_identifier on every BMP code point and all
2-character strings over a case-adversarial alphabet, quoted and unquoted, in every strategy."""
from __future__ import annotations

import itertools
import logging

import sqlglot
from sqlglot import exp
from sqlglot.dialects.dialect import Dialect, NormalizationStrategy
from sqlglot.errors import OptimizeError, SqlglotError
from sqlglot.optimizer.normalize_identifiers import normalize_identifiers
from sqlglot.optimizer.qualify import qualify

from vlib import corpus, oracle_engines as oe
from vlib.denum import A, Grammar
from vlib.run import Ctx

COLS = {"x": ["a", "b"], "y": ["b", "c"], "z": ["c", "d"], "w": ["a", "d"]}
DATA = {"x": [(11, 1), (12, 2), (13, 3)], "y": [(1, 31), (2, 32), (4, 34)], "z": [(31, 41), (32, 42), (35, 45)], "w": [(11, 41), (12, 49), (14, 42)]}
ENG_SCHEMA = {t: {c: "INT" for c in cols} for t, cols in COLS.items()}


COLLIDE = {"db": {"Xx": {"Xx": "INT", "b": "INT"}, "b": {"Xx": "INT"}}}
COLLIDE_QUERIES = [("c.star", "SELECT * FROM db.Xx"), ("c.col", "SELECT Xx FROM db.Xx"), ("c.qualified", "SELECT Xx.Xx, b FROM db.Xx"),
                   ("c.alias", "SELECT t.Xx FROM db.Xx AS t"), ("c.join", "SELECT Xx.Xx, b.Xx FROM db.Xx JOIN db.b ON Xx.b = b.Xx"),
                   ("c.lower", "SELECT xx FROM db.Xx"), ("c.where", "SELECT b FROM db.Xx WHERE Xx = 1")]


# columns whose only case-significant letters are outside ASCII (case folding is full Unicode unless the dialect says otherwise);
# declared QUOTED, i.e. case-sensitive: whatever qualify builds from these names must keep denoting them
UNI_NAMES = ["STRAßE", "straße", "dateÉmission", "DATEéMISSION", "İd", "ıd", "ǅx", "ÀB", "àb", "Σίσυφος", "x_ä", "X_Ä", "ＡＢ", "ab"]
UNICODE = {"t": {"id": "INT", **{f'"{n}"': "INT" for n in UNI_NAMES}}, "u": {"id": "INT", '"STRAßE"': "INT", '"àb"': "INT"}}
UNICODE_QUERIES = [("uni.star", "SELECT * FROM t"), ("uni.tstar", "SELECT t.* FROM t"), ("uni.using", 'SELECT * FROM t JOIN u USING ("STRAßE")'),
                   ("uni.using_cols", 'SELECT "STRAßE", t.id FROM t JOIN u USING ("STRAßE")'), ("uni.natural", "SELECT * FROM t NATURAL JOIN u"),
                   ("uni.derived", "SELECT * FROM (SELECT * FROM t) AS s"), ("uni.cte", "WITH c AS (SELECT * FROM u) SELECT * FROM c")]


def schema_for(depth, dialect=None):
    if depth == "unicode":
        # the names are declared quoted, in the dialect's own identifier quoting
        qd = lambda n: n if n == "id" else exp.to_identifier(n.strip('"'), quoted=True).sql(dialect=dialect or None)
        return {t: {qd(c): ty for c, ty in cols.items()} for t, cols in UNICODE.items()}
    if depth == "collide":
        import copy

        return copy.deepcopy(COLLIDE)
    s = {t: {c: "INT" for c in cols} for t, cols in COLS.items()}
    if depth == 2:
        return {"db": s}
    if depth == 3:
        return {"cat": {"db": s}}
    return s


NAT_STARS: dict = {}


def grammar() -> Grammar:
    col = [A("a", 0, "a"), A("x.a", 1, "x.a"), A("d", 1, "d")]
    q = [
        A("simple", 0, "SELECT a FROM x"),
        A("qualified", 1, "SELECT x.a, x.b FROM x"),
        A("alias_table", 1, "SELECT t.a, b FROM x AS t"),
        A("alias_shadow", 1, "SELECT y.a FROM x AS y"),
        A("join_unique", 1, "SELECT a, c FROM x JOIN y ON x.b = y.b"),
        A("join_three", 1, "SELECT a, d FROM x JOIN y ON x.b = y.b JOIN z ON y.c = z.c"),
        A("join_ambiguous", 1, "SELECT b FROM x JOIN y ON x.b = y.b"),
        A("join_left_where", 1, "SELECT a, c FROM x LEFT JOIN y ON x.b = y.b WHERE c IS NULL"),
        A("unknown_col", 1, "SELECT q FROM x"),
        A("using", 1, "SELECT a, b, c FROM x JOIN y USING (b)"),
        A("using_three", 1, "SELECT a, b, c, d FROM x JOIN y USING (b) JOIN z USING (c)"),
        A("using_left", 1, "SELECT b, y.b FROM x LEFT JOIN y USING (b)"),
        A("star", 1, "SELECT * FROM x"),
        A("star_join", 1, "SELECT * FROM x JOIN y ON x.b = y.b"),
        A("tstar", 1, "SELECT x.*, c FROM x JOIN y ON x.b = y.b"),
        A("star_using", 1, "SELECT * FROM x JOIN y USING (b)"),
        A("star_exclude", 1, "SELECT * EXCLUDE (a) FROM x"),
        A("star_replace", 1, "SELECT * REPLACE (a + 1 AS a) FROM x"),
        A("star_derived", 1, "SELECT * FROM (SELECT b, a FROM x) AS s"),
        A("alias_where", 1, "SELECT a AS k FROM x WHERE a = 11"),
        A("alias_group", 1, "SELECT a AS k, COUNT(*) AS n FROM x GROUP BY k"),
        A("alias_group_ordinal", 1, "SELECT a AS k, COUNT(*) AS n FROM x GROUP BY 1"),
        A("alias_having", 1, "SELECT a AS k, COUNT(*) AS n FROM x GROUP BY a HAVING n > 0"),
        A("alias_order", 1, "SELECT a AS k FROM x ORDER BY k"),
        A("alias_order_expr", 1, "SELECT a + 1 AS k FROM x ORDER BY k, b"),
        A("alias_shadows_col", 1, "SELECT a AS b FROM x ORDER BY b"),
        A("alias_shadows_group", 1, "SELECT a AS b, COUNT(*) AS n FROM x GROUP BY b"),
        A("alias_reuse", 1, "SELECT a AS k, k + 1 AS k2 FROM x"),
        A("derived", 1, "SELECT s.a FROM (SELECT a, b FROM x) AS s WHERE b = 1"),
        A("derived_alias_cols", 1, "SELECT p FROM (SELECT a, b FROM x) AS s(p, q)"),
        A("derived_nested", 1, "SELECT a FROM (SELECT a FROM (SELECT a, b FROM x) AS s1) AS s2"),
        A("cte", 1, "WITH t AS (SELECT a, b FROM x) SELECT a FROM t"),
        A("cte_cols", 1, "WITH t(p, q) AS (SELECT a, b FROM x) SELECT p, q FROM t"),
        A("cte_twice", 1, "WITH t AS (SELECT a, b FROM x) SELECT t1.a, t2.b FROM t AS t1 JOIN t AS t2 ON t1.b = t2.b"),
        A("cte_shadow_table", 1, "WITH x AS (SELECT c AS a FROM y) SELECT a FROM x"),
        A("cte_chain", 1, "WITH t AS (SELECT a FROM x), t2 AS (SELECT a FROM t) SELECT a FROM t2"),
        A("corr_exists", 1, "SELECT a FROM x WHERE EXISTS (SELECT 1 FROM y WHERE y.b = x.b)"),
        A("corr_unqualified_outer", 1, "SELECT a FROM x WHERE b IN (SELECT b FROM y WHERE c = a + 20)"),
        A("corr_shadow", 1, "SELECT a FROM x WHERE EXISTS (SELECT 1 FROM y WHERE b = 1)"),
        A("corr_alias_shadow", 1, "SELECT a FROM x AS o WHERE EXISTS (SELECT 1 FROM x AS i WHERE i.b = o.b AND a = 11)"),
        A("corr_scalar", 1, "SELECT a, (SELECT MAX(c) FROM y WHERE y.b = x.b) AS m FROM x"),
        A("corr_nested2", 1, "SELECT a FROM x WHERE EXISTS (SELECT 1 FROM y WHERE EXISTS (SELECT 1 FROM z WHERE z.c = y.c AND d > a))"),
        A("union", 1, "SELECT a FROM x UNION SELECT c FROM y"),
        A("union_order", 1, "SELECT a AS k FROM x UNION ALL SELECT c FROM y ORDER BY k"),
        A("union_derived_star", 1, "SELECT * FROM (SELECT a FROM x UNION ALL SELECT c FROM y) AS s"),
        A("lateral_ref", 1, "SELECT a, s.k FROM x, LATERAL (SELECT b + 1 AS k) AS s"),
        A("window", 1, "SELECT a, ROW_NUMBER() OVER (PARTITION BY b ORDER BY a) AS rn FROM x"),
        A("case_cols", 1, "SELECT CASE WHEN a > 11 THEN b ELSE a END AS v FROM x"),
        A("in_list", 1, "SELECT a FROM x WHERE a IN (11, b)"),
        A("qualify_clause", 1, "SELECT a, b FROM x QUALIFY ROW_NUMBER() OVER (PARTITION BY b ORDER BY a) = 1"),
        A("db_table", 1, "SELECT a FROM db.x"),
        A("join_on_unqualified", 1, "SELECT a FROM x JOIN z ON a = d"),
        A("order_by_unselected", 1, "SELECT a FROM x ORDER BY b"),
        A("group_expr", 1, "SELECT a + b AS s, COUNT(*) AS n FROM x GROUP BY a + b"),
        A("distinct_on", 1, "SELECT DISTINCT ON (b) a, b FROM x ORDER BY b, a"),
        # the same expression / column referenced more than once where qualify substitutes a shared replacement
        A("order_dup_expr", 1, "SELECT a + 1 AS k FROM x GROUP BY a + 1 ORDER BY a + 1, a + 1 DESC"),
        A("order_dup_alias", 1, "SELECT a AS k, b FROM x ORDER BY k, k DESC, b"),
        A("group_dup_expr", 1, "SELECT a + 1 AS k, COUNT(*) AS n FROM x GROUP BY a + 1, a + 1 HAVING a + 1 > 0 AND a + 1 < 99"),
        A("using_twice_where", 1, "SELECT x.a FROM x JOIN y USING (b) WHERE b > 1 AND b < 99"),
        A("using_where_order", 1, "SELECT x.a FROM x JOIN y USING (b) WHERE b > 1 ORDER BY b, b + 1"),
        A("using_in_exprs", 1, "SELECT b + b AS k, b AS b2 FROM x JOIN y USING (b) GROUP BY b HAVING b > 0"),
        # (`* REPLACE (1 AS b)` over two sources that both have b is engine-defined - DuckDB emits b once - and is kept out)
        A("star_exclude_join", 1, "SELECT * EXCLUDE (b) FROM x CROSS JOIN y"),
        A("star_replace_using", 1, "SELECT * REPLACE (b + 1 AS b) FROM x JOIN y USING (b)"),
        A("tstar_twice", 1, "SELECT x.*, x.* FROM x"),
        # ONE CTE referenced twice, the references exposing different column names (a column-list alias on one of them), in one scope
        # in both orders and across a correlated subquery whose outer query has a same-named column
        A("cte2.list_then_plain_star", 1, "WITH c AS (SELECT a, b FROM x) SELECT * FROM c AS r1(p, q) CROSS JOIN c AS r2"),
        A("cte2.plain_then_list_star", 1, "WITH c AS (SELECT a, b FROM x) SELECT * FROM c AS r2 CROSS JOIN c AS r1(p, q)"),
        A("cte2.list_then_plain_cols", 1, "WITH c AS (SELECT a, b FROM x) SELECT r1.p, r2.a, q, b FROM c AS r1(p, q) JOIN c AS r2 ON r1.q = r2.b"),
        A("cte2.two_lists", 1, "WITH c AS (SELECT a, b FROM x) SELECT p, q, m, n FROM c AS r1(p, q) JOIN c AS r2(m, n) ON q = n"),
        A("cte2.corr_inner_plain", 1, "WITH c AS (SELECT a, b FROM x) SELECT r1.p FROM w, c AS r1(p, q) WHERE EXISTS (SELECT 1 FROM c AS r2 WHERE a > r1.q)"),
        A("cte2.corr_inner_list", 1, "WITH c AS (SELECT a, b FROM x) SELECT r2.a FROM c AS r2 WHERE EXISTS (SELECT 1 FROM c AS r1(p, q) WHERE p > r2.b AND q = b)"),
        A("cte2.scalar", 1, "WITH c AS (SELECT a, b FROM x) SELECT r1.p, (SELECT MAX(a) FROM c AS r2 WHERE b = r1.q) AS m FROM c AS r1(p, q)"),
        A("dt2.list_then_plain", 1, "SELECT * FROM (SELECT a, b FROM x) AS r1(p, q) CROSS JOIN (SELECT a, b FROM x) AS r2"),
    ]
    # NATURAL / USING chains; `w` shares column a with x but not with its left neighbour y
    nat = {
        "star2": ("SELECT * FROM x NATURAL JOIN y", "abc"), "cols2": ("SELECT a, c FROM x NATURAL JOIN y", None), "left": ("SELECT * FROM x NATURAL LEFT JOIN y", "abc"),
        "full": ("SELECT * FROM x NATURAL FULL JOIN y", "abc"), "star3": ("SELECT * FROM x NATURAL JOIN y NATURAL JOIN z", "abcd"),
        "star3_far": ("SELECT * FROM x NATURAL JOIN y NATURAL JOIN w", "abcd"), "cols3_far": ("SELECT a, b, c, d FROM x NATURAL JOIN y NATURAL JOIN w", None),
        "using3_far": ("SELECT * FROM x JOIN y USING (b) JOIN w USING (a)", "abcd"), "using3_far_cols": ("SELECT a, d FROM x JOIN y USING (b) JOIN w USING (a)", None),
        "using_full": ("SELECT b, a, c FROM x FULL JOIN y USING (b)", None), "using2_two": ("SELECT * FROM x JOIN w USING (a) JOIN z USING (d)", "abdc"),
        "natural_then_using": ("SELECT * FROM x NATURAL JOIN y JOIN w USING (a)", "abcd"), "star3_far_where": ("SELECT * FROM x NATURAL JOIN y NATURAL JOIN w WHERE a = 11", "abcd"),
    }
    for n_, (sql_, star_) in nat.items():
        q.append(A("nat." + n_, 1, sql_))
        if star_:
            NAT_STARS["nat." + n_] = sorted(star_)
    # column-list aliases over set-operation bodies: every wrapper x every body shape (left-deep chains of 2..4 branches,
    # right-nested, mixed operators); the alias list must name the outputs whatever the shape of the body
    b1, b2, b3, b4 = "SELECT a, b FROM x", "SELECT b, c FROM y", "SELECT c, d FROM z", "SELECT b, a FROM x"
    bodies = {
        "select": b1, "u2": f"{b1} UNION ALL {b2}", "u3": f"{b1} UNION ALL {b2} UNION ALL {b3}", "u4": f"{b1} UNION ALL {b2} UNION ALL {b3} UNION ALL {b4}",
        "u3_right": f"{b1} UNION ALL ({b2} UNION ALL {b3})", "u3_mixed": f"{b1} UNION {b2} EXCEPT {b3}", "u3_intersect": f"{b1} INTERSECT {b2} UNION ALL {b3}",
        "u3_left_paren": f"({b1} UNION ALL {b2}) UNION ALL {b3}",
    }
    wrappers = {
        "cte_cols_star": "WITH t(p, q) AS ({body}) SELECT * FROM t", "cte_cols_named": "WITH t(p, q) AS ({body}) SELECT p, q FROM t",
        "derived_cols_star": "SELECT * FROM ({body}) AS s(p, q)", "derived_cols_named": "SELECT q, p FROM ({body}) AS s(p, q)",
        "cte_star": "WITH t AS ({body}) SELECT * FROM t", "derived_star": "SELECT * FROM ({body}) AS s", "derived_named": "SELECT s.b, s.a FROM ({body}) AS s",
    }
    for wn, w in wrappers.items():
        for bn, b in bodies.items():
            q.append(A(f"setbody.{wn}.{bn}", 1, w.format(body=b)))
    # a star over every order of {table, derived table} items and every way of joining them
    for jn, j in (("cross", " CROSS JOIN {r}"), ("comma", ", {r}"), ("on", " JOIN {r} ON TRUE"), ("left", " LEFT JOIN {r} ON TRUE")):
        for on_, parts in (("derived_then_table", ("(SELECT a FROM x) AS s1", "z AS s2")), ("table_then_derived", ("z AS s2", "(SELECT a FROM x) AS s1")),
                           ("derived_table_derived", ("(SELECT a FROM x) AS s1", "z AS s2", "(SELECT b FROM y) AS s3")),
                           ("table_derived_table", ("z AS s2", "(SELECT a FROM x) AS s1", "y AS s3"))):
            q.append(A(f"star_{on_}.{jn}", 1, "SELECT * FROM " + parts[0] + "".join(j.format(r=r) for r in parts[1:])))
    # scope-name collisions: a WITH nested inside a derived table / set operand / subquery whose CTE is named like a real table
    # (or like an outer CTE), next to a SIBLING that reads the real table, with and without a top-level WITH, in both orders.
    # What each name denotes at each point is decided by DuckDB (rows and output names of the original vs the qualified text).
    tops = {"none": "", "base": "WITH base AS (SELECT a, b FROM x) ", "shadow_y": "WITH y AS (SELECT a, b FROM x) "}
    for tn, top in tops.items():
        for n in ("y", "z", "t", "base"):
            for src in ("x", "base"):
                if (src == "base" or n == "base") and tn != "base":
                    continue
                nested = f"(WITH {n} AS (SELECT a FROM {src}) SELECT a FROM {n}) AS s1"
                for m in ("y", "z"):
                    for sn, sib in (("dt", f"(SELECT * FROM {m}) AS s2"), ("tbl", f"{m} AS s2")):
                        # (a bare star over `derived table, then table` is the separate shape star_derived_then_table)
                        q.append(A(f"scope.{tn}.{n}.{src}.{m}.{sn}.ab", 1, f"{top}SELECT {'*' if sn == 'dt' else 's1.*, s2.*'} FROM {nested} CROSS JOIN {sib}"))
                        q.append(A(f"scope.{tn}.{n}.{src}.{m}.{sn}.ba", 1, f"{top}SELECT * FROM {sib} CROSS JOIN {nested}"))
                    q.append(A(f"scope.{tn}.{n}.{src}.{m}.union", 1, f"{top}(WITH {n} AS (SELECT a FROM {src}) SELECT a FROM {n}) UNION ALL SELECT c FROM {m}"))
                    q.append(A(f"scope.{tn}.{n}.{src}.{m}.union_rev", 1, f"{top}SELECT c FROM {m} UNION ALL (WITH {n} AS (SELECT a FROM {src}) SELECT a FROM {n})"))
                    q.append(A(f"scope.{tn}.{n}.{src}.{m}.in", 1, f"{top}SELECT a FROM x WHERE a IN (WITH {n} AS (SELECT a FROM {src}) SELECT a FROM {n}) AND b IN (SELECT b FROM {m})"))
                    q.append(A(f"scope.{tn}.{n}.{src}.{m}.scalar", 1, f"{top}SELECT (WITH {n} AS (SELECT a FROM {src}) SELECT MAX(a) FROM {n}) AS mx, c FROM {m}"))
                    q.append(A(f"scope.{tn}.{n}.{src}.{m}.cte_body", 1, f"{top.rstrip() + ', ' if top else 'WITH '}o AS (WITH {n} AS (SELECT a FROM {src}) SELECT a FROM {n}) SELECT * FROM o CROSS JOIN {m} AS s2"))
    return Grammar({"q": q, "col": col})


SPELLINGS = {
    "lower": lambda n: n,
    "Upper": lambda n: n.capitalize(),
    "UPPER": lambda n: n.upper(),
}


def respell(sql: str, how: str) -> str:
    """Re-spell the schema identifiers a b c d x y z in a query (keywords untouched)."""
    import re

    f = SPELLINGS[how]
    return re.sub(r"\b([abcdxyzw])\b", lambda m: f(m.group(1)), sql)


def sources_of(select: exp.Expr) -> set[str]:
    out = set()
    frm = select.args.get("from_")
    items = []
    if frm is not None:
        items.append(frm.this)
    for j in select.args.get("joins") or []:
        items.append(j.this)
    for lat in select.args.get("laterals") or []:
        items.append(lat)
    for it in items:
        if isinstance(it, (exp.Table, exp.Subquery, exp.Unnest, exp.Lateral, exp.Values)) or hasattr(it, "alias_or_name"):
            n = it.alias_or_name
            if n:
                out.add(n)
    return out


def check_qualified(q: exp.Expr, D: Dialect) -> list[tuple[str, str]]:
    probs = []
    cte_names = {c.alias_or_name for c in q.find_all(exp.CTE)}
    for t in q.find_all(exp.Table):
        if isinstance(t.parent, (exp.From, exp.Join)) and not t.alias:
            probs.append(("table_alias", f"table `{t.sql()}` has no alias"))
    for st in q.find_all(exp.Star):
        if isinstance(st.parent, (exp.Select, exp.Column)) and not isinstance(st.parent, exp.Count):
            col = st.parent if isinstance(st.parent, exp.Column) else st
            if isinstance(col.parent, exp.Select):
                probs.append(("star_left", f"star `{col.sql()}` not expanded"))
    for c in q.find_all(exp.Column):
        if isinstance(c.this, exp.Star):
            continue
        sel = c.find_ancestor(exp.Select)
        visible = set()
        s = sel
        while s is not None:
            visible |= sources_of(s)
            s = s.find_ancestor(exp.Select)
        # set-operation ORDER BY: columns refer to output names of the operands
        # ORDER BY, DISTINCT ON, and - in dialects that allow it - GROUP BY / HAVING / QUALIFY may name the query's
        # own output columns; such a reference stays table-less
        clause = None
        node = c
        while node is not None and not isinstance(node, exp.Select) and not isinstance(node, exp.SetOperation):
            if isinstance(node, (exp.Order, exp.Distinct, exp.Having, exp.Qualify, exp.Group)) and isinstance(node.parent, (exp.Select, exp.SetOperation)):
                clause = node
            node = node.parent
        in_order = clause is not None
        if not c.table:
            holder = clause.parent if in_order else None
            names = []
            if holder is not None and hasattr(holder, "named_selects"):
                try:
                    names = holder.named_selects
                except Exception:
                    names = []
            if in_order and c.name in names:
                continue
            probs.append(("unqualified", f"column `{c.sql()}` has no table"))
        elif sel is not None and c.table not in visible:
            probs.append(("invisible_source", f"column `{c.sql()}` names `{c.table}`, visible sources are {sorted(visible)}"))
    return probs


def worker(shard, nshards, plan):
    logging.disable(logging.CRITICAL)
    res = {"evaluations": 0, "nontrivial": 0, "refused": 0, "engine_pairs": 0, "viol": {}, "samples": []}
    duck = oe.Duck(ENG_SCHEMA, DATA)

    def record(sig, dialect, sql, msg, extra=None):
        v = res["viol"].get(sig)
        if v is None:
            res["viol"][sig] = {"dialect": dialect, "sql": sql, "msg": msg, "extra": extra, "count": 1}
        else:
            v["count"] += 1

    idx = 0
    for dialect, depth, spelling, items in plan:
        D = Dialect.get_or_raise(dialect or None)
        schema = schema_for(depth, dialect)
        for cost, sql0, tags in items:
            idx += 1
            if idx % nshards != shard:
                continue
            sql = respell(sql0, spelling)
            if depth == "unicode":
                sql = sql.replace('"STRAßE"', exp.to_identifier("STRAßE", quoted=True).sql(dialect=dialect or None))
            try:
                tree = sqlglot.parse_one(sql, read=dialect or None)
            except Exception:
                continue
            res["evaluations"] += 1
            kw = dict(schema=schema, dialect=dialect or None)
            if depth == "collide":
                pass
            elif depth == "unicode":
                kw["identify"] = False   # only identifiers that need it are quoted: the decision rests on Dialect.case_sensitive
            elif depth >= 2:
                kw["db"] = "db"
            if depth == 3:
                kw["catalog"] = "cat"
            if depth == "collide":
                # a fresh MappingSchema per query and, as a history, one shared schema object over all queries:
                # answers must not depend on which names the schema normalised earlier
                from sqlglot.schema import MappingSchema
                shared = res.setdefault("_shared_" + (dialect or "base"), MappingSchema(schema_for("collide"), dialect=dialect or None))
                try:
                    a1 = qualify(tree.copy(), schema=MappingSchema(schema_for("collide"), dialect=dialect or None), dialect=dialect or None).sql(dialect or None)
                except SqlglotError as e:
                    a1 = "ERR:" + type(e).__name__
                except Exception as e:
                    a1 = "CRASH:" + type(e).__name__
                try:
                    a2 = qualify(tree.copy(), schema=shared, dialect=dialect or None).sql(dialect or None)
                except SqlglotError as e:
                    a2 = "ERR:" + type(e).__name__
                except Exception as e:
                    a2 = "CRASH:" + type(e).__name__
                if a1 != a2:
                    record(f"schema_history|{'+'.join(tags)}", dialect, sql, f"qualify with a schema object that served earlier queries gives `{a2}`, with a fresh schema `{a1}`")
            try:
                q1 = qualify(tree.copy(), **kw)
            except OptimizeError:
                res["refused"] += 1
                continue
            except SqlglotError:
                res["refused"] += 1
                continue
            except RecursionError:
                continue
            except Exception as e:
                record(f"crash|{type(e).__name__}|{'+'.join(tags)}", dialect, sql, f"qualify leaked {type(e).__name__}: {str(e)[:80]}")
                continue
            try:
                t1 = q1.sql(dialect or None)
                t0 = tree.sql(dialect or None)
            except Exception:
                continue   # a generator that cannot render the (qualified) tree is C05's / C14's business
            if t1 != t0:
                res["nontrivial"] += 1
            for code, msg in check_qualified(q1, D):
                record(f"{code}|{'+'.join(tags)}", dialect, sql, f"{msg} in `{t1}`")
            # star expansion order
            if depth == "collide" and tags[0] == "c.star":
                got = [n.lower() for n in q1.named_selects]
                if got != ["xx", "b"]:
                    record("star_order|c.star", dialect, sql, f"star expanded to {q1.named_selects}, schema order gives ['Xx', 'b']")
            elif tags and tags[0].startswith("setbody.") and "_star" in tags[0].split(".")[1]:
                # the star over a set-operation body: the alias column list if there is one, else the first branch's names
                want = ["p", "q"] if "_cols_" in tags[0] else ["a", "b"]
                try:
                    got = [n.lower() for n in q1.named_selects]
                except Exception:
                    got = None
                if got is not None and got != want:
                    record(f"star_order|{tags[0]}", dialect, sql, f"star expanded to {got}, the source exposes {want}")
            elif tags and tags[0] in NAT_STARS:
                # NATURAL / USING chains: every column exactly once (the order is left to the DuckDB comparison)
                try:
                    got = sorted(n.lower() for n in q1.named_selects)
                except Exception:
                    got = None
                if got is not None and got != NAT_STARS[tags[0]]:
                    record(f"star_order|{tags[0]}", dialect, sql, f"star expanded to {q1.named_selects}, the join exposes each of {NAT_STARS[tags[0]]} once")
            elif tags and tags[0] in ("star", "star_derived", "star_join", "star_using", "tstar", "star_exclude", "star_replace", "union_derived_star"):
                want = {"star": ["a", "b"], "star_derived": ["b", "a"], "star_join": ["a", "b", "b", "c"], "star_using": ["b", "a", "c"],
                        "tstar": ["a", "b", "c"], "star_exclude": ["b"], "star_replace": ["a", "b"], "union_derived_star": ["a"]}[tags[0]]
                try:
                    got = [n.lower() for n in q1.named_selects]
                except Exception:
                    got = None
                if got is not None and got != want and not (tags[0] == "star_using" and sorted(got) == sorted(want)):
                    record(f"star_order|{tags[0]}", dialect, sql, f"star expanded to {got}, schema order gives {want}")
            elif tags and tags[0].startswith("uni."):
                # the expanded star must name the schema's columns exactly (they are case-sensitive)
                try:
                    got = list(q1.named_selects)
                except Exception:
                    got = None
                want = {"uni.star": ["id"] + UNI_NAMES, "uni.tstar": ["id"] + UNI_NAMES, "uni.derived": ["id"] + UNI_NAMES, "uni.cte": ["id", "STRAßE", "àb"]}.get(tags[0])
                folds_quoted = D.NORMALIZATION_STRATEGY in (NormalizationStrategy.CASE_INSENSITIVE, NormalizationStrategy.CASE_INSENSITIVE_UPPERCASE)
                if got is not None and want is not None and not folds_quoted and [g for g in got if g.lower() != "id"] != want[1:]:
                    record(f"star_names|{tags[0]}", dialect, sql, f"star expanded to {got}, the schema's (quoted) columns are {want}")
            elif tags and (tags[0].startswith("cte2.") and "star" in tags[0] or tags[0] == "dt2.list_then_plain" or tags[0].startswith("scope.") or tags[0].startswith("star_") and tags[0] not in ("star_join", "star_using", "star_exclude", "star_replace", "star_derived")
                           or tags[0] == "tstar_twice"):
                pass   # stars over nested scopes: rows and output names are compared on DuckDB below
            else:
                try:
                    before = [D.normalize_identifier(exp.to_identifier(n)).name if n else n for n in tree.named_selects]
                    after = list(q1.named_selects)
                    if [b.lower() for b in before] != [a.lower() for a in after]:
                        record(f"output_names|{'+'.join(tags)}", dialect, sql, f"output names {tree.named_selects} became {after}")
                except Exception:
                    pass
            # idempotence: on the tree and through the text
            try:
                q2 = qualify(q1.copy(), **kw)
                t2 = q2.sql(dialect or None)
                back = sqlglot.parse_one(t1, read=dialect or None)
                from vlib import fingerprint as fpm
                if fpm.fingerprint(back, "eq") == fpm.fingerprint(q1, "eq"):
                    t3 = qualify(back, **kw).sql(dialect or None)
                else:
                    t3 = t1  # the generator rewrote the query for this dialect (e.g. QUALIFY elimination): C01's business
                if t2 != t1:
                    record(f"not_idempotent|{'+'.join(tags)}", dialect, sql, f"qualify(qualify(q)) differs: `{t1}` -> `{t2}`")
                elif t3 != t1:
                    record(f"not_idempotent_text|{'+'.join(tags)}", dialect, sql, f"qualify(parse(text of qualify(q))) differs: `{t1}` -> `{t3}`")
            except SqlglotError as e:
                record(f"requalify_fails|{'+'.join(tags)}", dialect, sql, f"qualifying the qualified query raises {type(e).__name__}: {str(e)[:80]}")
            except RecursionError:
                pass
            except Exception as e:
                record(f"crash|{type(e).__name__}|requalify|{'+'.join(tags)}", dialect, sql, f"re-qualify leaked {type(e).__name__}")
            # engine-grounded second opinion (DuckDB dialect, flat schema)
            if dialect == "duckdb" and depth == 1 and spelling == "lower":
                try:
                    ref = duck.run(sql)
                except oe.EngineError:
                    ref = None
                if ref is not None:
                    res["engine_pairs"] += 1
                    try:
                        got = duck.run(t1)
                        why = oe.compare_results(ref[1], got[1], oe.order_positions(tree))
                        if why is None and [n.lower() for n in ref[0]] != [n.lower() for n in got[0]]:
                            why = f"column names {ref[0]} -> {got[0]}"
                        if why:
                            record(f"engine|{'+'.join(tags)}", dialect, sql, f"DuckDB: original and qualified text differ ({why}): `{t1}`")
                    except oe.EngineError as e:
                        record(f"engine_rejects|{'+'.join(tags)}", dialect, sql, f"DuckDB rejects the qualified text `{t1}`: {str(e)[:80]}")
            if len(res["samples"]) < 2 and idx % 173 == shard:
                res["samples"].append({"dialect": dialect or "base", "sql": sql, "qualified": t1})
    duck.close()
    for k in [k for k in res if k.startswith("_shared_")]:
        del res[k]
    res["viol"] = list(res["viol"].items())
    return res


def norm_worker(shard, nshards, dialects, quick):
    res = {"evaluations": 0, "nontrivial": 0, "viol": {}}
    alpha = ["a", "A", "ß", "İ", "ǅ", "Ä", "σ", "ς", "1", "_"]
    for d in dialects:
        D = Dialect.get_or_raise(d or None)
        cps = range(shard, 0x10000, nshards)
        items = [chr(cp) for cp in cps if not (0xD800 <= cp <= 0xDFFF)]
        if shard == 0:
            items += ["".join(p) for p in itertools.product(alpha, repeat=2)]
        for text in items:
            for quoted in (False, True):
                res["evaluations"] += 1
                i1 = exp.Identifier(this=text, quoted=quoted)
                try:
                    n1 = D.normalize_identifier(i1.copy())
                    n2 = D.normalize_identifier(n1.copy())
                except Exception as e:
                    res["viol"].setdefault(f"norm_crash|{d or 'base'}|{type(e).__name__}", {"dialect": d, "sql": text, "msg": f"normalize_identifier raised {type(e).__name__} on {text!r}", "extra": None, "count": 1})
                    continue
                if n1.name != text:
                    res["nontrivial"] += 1
                if n2.name != n1.name:
                    res["viol"].setdefault(f"norm_not_idempotent|{d or 'base'}|quoted={quoted}", {"dialect": d, "sql": text, "msg": f"normalize({text!r}) = {n1.name!r}, normalizing again gives {n2.name!r}", "extra": {"quoted": quoted}, "count": 1})
                strategy = D.NORMALIZATION_STRATEGY
                folds_quoted = strategy in (NormalizationStrategy.CASE_INSENSITIVE, NormalizationStrategy.CASE_INSENSITIVE_UPPERCASE)
                if quoted and not folds_quoted and strategy != NormalizationStrategy.CASE_SENSITIVE and n1.name != text:
                    res["viol"].setdefault(f"norm_changed_quoted|{d or 'base'}", {"dialect": d, "sql": text, "msg": f"quoted identifier {text!r} was changed to {n1.name!r} under {strategy}", "extra": None, "count": 1})
                if strategy == NormalizationStrategy.CASE_SENSITIVE and n1.name != text:
                    res["viol"].setdefault(f"norm_changed_case_sensitive|{d or 'base'}", {"dialect": d, "sql": text, "msg": f"identifier {text!r} changed to {n1.name!r} in a case-sensitive dialect", "extra": None, "count": 1})
    res["viol"] = list(res["viol"].items())
    return res


def run(ctx: Ctx) -> None:
    quick = ctx.quick
    g = grammar()
    items = g.enumerate("q", 1, 3)
    by_strategy = {}
    for d in [""] + corpus.all_dialects():
        D = Dialect.get_or_raise(d or None)
        by_strategy.setdefault((D.NORMALIZATION_STRATEGY, getattr(D, "ASCII_ONLY_NORMALIZATION", None)), []).append(d)
    reps = [v[0] for v in by_strategy.values()]
    dialects = sorted(set(reps + ["duckdb", "snowflake", "bigquery", "mysql", "postgres", "tsql"] + ([] if quick else corpus.all_dialects())))
    plan = []
    for d in dialects:
        for depth in (1, 2, 3):
            for sp in SPELLINGS:
                if quick and depth > 1 and sp != "lower":
                    continue
                if sp != "lower" and Dialect.get_or_raise(d or None).NORMALIZATION_STRATEGY == NormalizationStrategy.CASE_SENSITIVE:
                    continue  # a differently-cased name is a different (unknown) table in a case-sensitive dialect
                plan.append((d, depth, sp, items))
    uni_items = [(1, q, (t,)) for t, q in UNICODE_QUERIES]
    for d in [""] + corpus.all_dialects():
        plan.append((d, "unicode", "lower", uni_items))
    collide_items = [(1, q, (t,)) for t, q in COLLIDE_QUERIES]
    for d in dialects:
        plan.append((d, "collide", "lower", collide_items))
    res = ctx.run_shards(worker, ctx.jobs * 3, plan)
    nres = ctx.run_shards(norm_worker, ctx.jobs, reps if quick else [""] + corpus.all_dialects(), quick)
    viol = {}
    for sig, v in list(res["viol"]) + list(nres["viol"]):
        if sig in viol:
            viol[sig]["count"] += v["count"]
        else:
            viol[sig] = v
    for sig, v in sorted(viol.items()):
        ctx.violation("C10|" + sig, f"[{v['dialect'] or 'base'}] `{v['sql']}`: {v['msg']}", {"dialect": v["dialect"], "sql": v["sql"], "sig": sig}, v["count"])
    ctx.evidence(
        "exploration",
        {
            "evaluations": res["evaluations"] + nres["evaluations"],
            "distinct_nontrivial": res["nontrivial"] + nres["nontrivial"],
            "rule": f"{len(items)} G_qual queries (unqualified / partially qualified columns, shadowing aliases, alias references in WHERE / "
                    "GROUP BY / HAVING / ORDER BY, ordinals, USING, *, t.*, * EXCLUDE / REPLACE, derived tables and CTEs with column lists, "
                    "correlated subqueries with shadowing, set operations, LATERAL, QUALIFY, DISTINCT ON, ambiguous and unknown columns) x "
                    f"schema depth 1-3 x 3 spellings x {len(dialects)} dialects covering every normalisation strategy; normalize_identifier on "
                    "every BMP code point and 100 2-character case-adversarial strings, quoted and unquoted, per strategy. non-trivial = "
                    "queries that qualify changed / identifiers that normalisation changed.",
            "optimize_errors_allowed": res["refused"],
            "duckdb_pairs": res["engine_pairs"],
            "normalisation_strategies": [str(k[0]) for k in by_strategy],
            "exhaustive": True,
            "samples": res["samples"][:3],
        },
        ["an ambiguous reference that the library resolves instead of refusing is not judged (only visibility is)",
         "DuckDB second opinion only for the duckdb dialect on the flat schema"],
    )


def replay(ctx: Ctx, case: dict) -> bool:
    logging.disable(logging.CRITICAL)
    if case.get("sig", "").startswith("norm_"):
        r = norm_worker(0, 1, [case["dialect"]], True)
        hits = [(k, v["msg"]) for k, v in r["viol"] if k == case["sig"]]
        print(hits[:3])
        return bool(hits)
    found = []
    for depth in (1, 2, 3):
        r = worker(0, 1, [(case["dialect"], depth, "lower", [(0, case["sql"], tuple(case.get("sig", "x|replay").split("|")[1].split("+")))])])
        found += [(k, v["msg"]) for k, v in r["viol"]]
    for f in found:
        print(f)
    return bool(found)
