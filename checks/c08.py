"""C08 - syntax trees stay structurally consistent under any sequence of edits.

E2: BFS over operation histories on real trees (replay from scratch), state = (exact fingerprint of
main and other tree, set of paths holding a cached hash). Invariants in every state:
 I1 parent/arg_key/index links match storage, I2 no node stored twice, I3 cached hash == hash of a
 cache-free rebuild, I4 (a == b) <=> same eq-fingerprint over all trees seen.
Second stream: trees returned by parse_one and by every optimizer rule on the fixture corpus.
"""
from __future__ import annotations

import inspect
import os

import sqlglot
from sqlglot import exp
from sqlglot.errors import SqlglotError
from sqlglot.expressions.core import Expr

from vlib import corpus, fingerprint as fpm, treeops
from vlib.run import Ctx, HarnessError

TREES = [
    ("add", "a + b"),
    ("func", "f(a, b, c)"),
    ("bool", "a AND (b OR c)"),
    ("in", "x IN (1, 2, 3)"),
    ("case", "CASE WHEN a THEN b ELSE c END"),
    ("select", "SELECT a, b FROM t WHERE c ORDER BY d"),
    ("join", "SELECT a FROM t JOIN u ON t.b = u.b"),
    ("cte", "WITH q AS (SELECT 1 AS a) SELECT * FROM q"),
]
RULE_NAMES = None


def rule_names():
    from sqlglot.optimizer import optimizer as opt

    return [r.__name__ for r in opt.RULES]


def build(tree_sql, hist):
    """Replay a history from scratch. Returns (ws, observation, error) - error is the exception an op
    raised (the state is then whatever the library left behind, which is still judged)."""
    ws = [sqlglot.parse_one(tree_sql), None]
    obs: dict = {}
    err = None
    for op in hist:
        obs = {}
        try:
            treeops.apply(ws, op, obs)
        except treeops.NotEnabled:
            return None, None, "notenabled"
        except RecursionError:
            return None, None, "recursion"
        except Exception as e:
            # the operation failed: the property speaks about trees *after* operations, and internal
            # exceptions are C05's business - the history ends here and its state is not judged
            return None, None, "exc:" + type(e).__name__
    return ws, obs, err


def canon(ws):
    main, other = ws
    return (
        fpm.fingerprint(main), fpm.cached_paths(main),
        fpm.fingerprint(other) if other is not None else None,
        fpm.cached_paths(other) if other is not None else None,
    )


def judge(ws, obs, eqmap, hashmap):
    """Returns list of (code, message)."""
    out = []
    main, other = ws
    for label, tree in (("main", main), ("other", other)):
        if tree is None:
            continue
        # only the tree reachable from its root is judged
        for p in fpm.link_problems(tree):
            out.append((p[:2], f"{label}: {p}"))
        for p in fpm.hash_problems(tree):
            out.append(("I3", f"{label}: {p}"))
    if other is not None and main is not other:
        shared = fpm.node_ids(main) & fpm.node_ids(other)
        if shared and obs.get("_copied"):
            out.append(("I2", f"copy shares {len(shared)} node(s) with its original"))
    if "eq" in obs and other is not None:
        want = fpm.fingerprint(main, "eq") == fpm.fingerprint(other, "eq")
        if obs["eq"] != want:
            out.append(("I4", f"main == other is {obs['eq']} but structural comparison says {want}: "
                              f"`{fpm.safe_sql(main)}` vs `{fpm.safe_sql(other)}`"))
    return out


def explore(tree_name, tree_sql, first_ops, max_len, quick, rules):
    st = {"states": 0, "transitions": 0, "nontrivial": 0, "violations": [], "errors": 0, "samples": [],
          "eqpairs": 0}
    seen = set()
    eqmap: dict = {}
    hashmap: dict = {}
    frontier = [(op,) for op in first_ops]
    depth = 1
    while frontier and depth <= max_len:
        nxt = []
        for hist in frontier:
            ws, obs, err = build(tree_sql, hist)
            if ws is None:
                if err and err.startswith("exc:"):
                    st["errors"] += 1
                continue
            st["transitions"] += 1
            probs = judge(ws, obs, eqmap, hashmap)
            # I4 over all states seen: hash-equality classes must coincide with eq-fingerprint classes
            if not probs:
                for tree in ws:
                    if tree is None:
                        continue
                    fe = fpm.fingerprint(tree, "eq")
                    h = (type(tree).__name__, hash(fpm.rebuild(tree)))
                    st["eqpairs"] += 1
                    if eqmap.setdefault(fe, h) != h:
                        probs.append(("I4", f"two structurally equal trees hash differently: `{fpm.safe_sql(tree)}`"))
                    if hashmap.setdefault(h, fe) != fe:
                        probs.append(("I4", f"two structurally different trees compare equal: `{fpm.safe_sql(tree)}`"))
            if probs:
                code, msg = probs[0]
                names = [treeops.op_name(o) for o in hist]
                sig = f"C08|{code}|" + ">".join(names)
                st["violations"].append({
                    "signature": sig,
                    "what": f"{code} after {' ; '.join(names)} on `{tree_sql}`: {msg}",
                    "case": {"tree": tree_sql, "history": [list(o) for o in hist], "problems": [m for _, m in probs][:5]},
                })
                continue  # do not extend broken states
            hist_names = [o[0] for o in hist]
            if "hash" in hist_names or "eq" in hist_names:
                i = min(hist_names.index(x) for x in ("hash", "eq") if x in hist_names)
                if any(n not in ("hash", "eq", "swap") for n in hist_names[i + 1:]):
                    st["nontrivial"] += 1
            if len(st["samples"]) < 2 and depth == max_len and st["transitions"] % 4999 == 1:
                st["samples"].append({"tree": tree_sql, "history": [list(o) for o in hist]})
            if depth < max_len and not err:
                k = canon(ws)
                if k not in seen:
                    seen.add(k)
                    for op in treeops.enabled_ops(ws, quick, rules):
                        nxt.append(hist + (op,))
        frontier = nxt
        depth += 1
    st["states"] = len(seen)
    return st


def worker(shard, nshards, units, quick, rules):
    import logging

    logging.disable(logging.CRITICAL)
    res = {"states": 0, "transitions": 0, "nontrivial": 0, "violations": [], "errors": 0, "samples": [],
           "eqpairs": 0, "stream_trees": 0, "stream_nodes": 0}
    for i, u in enumerate(units):
        if i % nshards != shard:
            continue
        if u[0] == "bfs":
            _, name, sql, op, max_len = u
            st = explore(name, sql, [op], max_len, quick, rules)
            for k in ("states", "transitions", "nontrivial", "errors", "eqpairs"):
                res[k] += st[k]
            res["violations"] += st["violations"]
            res["samples"] += st["samples"][:1]
        else:
            stream_unit(u, res)
    res["samples"] = res["samples"][:3]
    dedup = {}
    for v in res["violations"]:
        if v["signature"] in dedup:
            dedup[v["signature"]]["count"] += 1
        else:
            v["count"] = 1
            dedup[v["signature"]] = v
    res["violations"] = list(dedup.values())
    return res


def stream_unit(u, res):
    """Trees returned by parse_one / by each optimizer rule must satisfy I1-I3."""
    kind = u[0]
    if kind == "parse":
        _, dialect, sqls = u
        for sql in sqls:
            try:
                tree = sqlglot.parse_one(sql, read=dialect)
            except (SqlglotError, RecursionError):
                continue
            check_stream_tree(tree, f"parse[{dialect or 'base'}]", sql, res)
            # hashing and comparing the result with a copy must also be consistent
            try:
                c = tree.copy()
                if not (c == tree):
                    add_stream_violation(res, "I4", f"parse[{dialect or 'base'}]", sql, "copy() != original")
                check_stream_tree(c, f"parse+copy[{dialect or 'base'}]", sql, res)
                check_stream_tree(tree, f"parse+hash[{dialect or 'base'}]", sql, res)
            except RecursionError:
                pass
            except Exception as e:
                add_stream_violation(res, "I3", f"parse[{dialect or 'base'}]", sql, f"hash / == / copy of the returned tree raises {type(e).__name__}: {str(e)[:60]}")
    elif kind == "rules":
        from sqlglot.optimizer import optimizer as opt
        from sqlglot.schema import ensure_schema

        _, cases = u
        for sql, dialect, schema in cases:
            possible = {"schema": ensure_schema(schema, dialect=dialect), "dialect": dialect, "isolate_tables": True,
                        "quote_identifiers": False, "db": None, "catalog": None, "sql": None}
            try:
                tree = sqlglot.parse_one(sql, read=dialect)
            except (SqlglotError, RecursionError):
                continue
            hash(tree)  # populate caches before the rules mutate
            for rule in opt.RULES:
                params = inspect.getfullargspec(rule).args
                try:
                    tree = rule(tree, **{p: possible[p] for p in params if p in possible})
                except (SqlglotError, RecursionError):
                    break
                except Exception:
                    break  # C05-style crashes are not C08's business
                if check_stream_tree(tree, f"rule:{rule.__name__}", sql, res):
                    break  # reported at the first rule that returns a damaged tree; later rules would only repeat it
                hash(tree)


def check_stream_tree(tree, origin, sql, res):
    res["stream_trees"] += 1
    probs = fpm.tree_problems(tree)
    res["stream_nodes"] += len(fpm.nodes(tree))
    if probs:
        add_stream_violation(res, probs[0][:2], origin, sql, probs[0])
    return bool(probs)


def add_stream_violation(res, code, origin, sql, msg):
    import re

    shape = re.sub(r"`.*`", "", re.sub(r"\[\d+\]", "[i]", msg))
    res["violations"].append({
        "signature": f"C08|{code}|{origin}|{shape}"[:300],
        "what": f"{code} on the tree returned by {origin} for `{sql}`: {msg}",
        "case": {"stream": origin, "sql": sql, "problem": msg},
    })


def run(ctx: Ctx) -> None:
    quick = ctx.quick
    rules = rule_names()
    units = []
    for name, sql in TREES:
        small = name in ("add", "func", "bool", "in")
        max_len = (3 if small else 2) if quick else (4 if name == "add" else 3)
        ws = [sqlglot.parse_one(sql), None]
        for op in treeops.enabled_ops(ws, quick, rules):
            units.append(("bfs", name, sql, op, max_len))
    # second stream
    ident = corpus.identity_sql()
    dialects = [""] + (corpus.all_dialects() if not quick else ["duckdb", "snowflake", "bigquery", "tsql", "mysql", "postgres"])
    for d in dialects:
        for i in range(0, len(ident), 100):
            units.append(("parse", d, ident[i:i + 100]))
    # trees returned by parse_one for the core grammar in every dialect
    from vlib.grammar_core import statements
    for d in ([""] + corpus.all_dialects() if not quick else ["", "bigquery", "snowflake", "tsql", "clickhouse", "oracle"]):
        k1 = [x for c, x, t in statements(d, 1)]
        for i in range(0, len(k1), 150):
            units.append(("parse", d, k1[i:i + 150]))
    # trees returned by parse_one for every statement of the repository's dialect tests, in its own dialect
    by_d = {}
    for d, sql in corpus.dialect_test_sql():
        by_d.setdefault(d, []).append(sql)
    for d, sqls in sorted(by_d.items()):
        for i in range(0, len(sqls), 150):
            units.append(("parse", d, sqls[i:i + 150]))
    cases = corpus.optimizer_cases()
    from vlib.grammar_exec import queries as exec_queries
    from vlib.grammar_exec import SCHEMA as EXEC_SCHEMA
    cases = cases + [(x, "duckdb", EXEC_SCHEMA) for c, x, t in exec_queries(2, opt_extras=True)][::(3 if quick else 1)]
    # the qualification shapes of C10 (shadowing, USING / NATURAL chains, stars with modifiers, nested scopes, duplicate references)
    from checks import c10 as _c10
    c10_items = [x for c, x, t in _c10.grammar().enumerate("q", 1, 3)]
    c10_schema = _c10.schema_for(1)
    c10_items.append("SELECT * REPLACE (1 AS b) FROM x CROSS JOIN y")
    cases = cases + [(x, d, c10_schema) for x in c10_items for d in ("duckdb", "bigquery")][::(2 if quick else 1)]
    # every optimizer rule on the dialect-test statements (no schema: a rule that refuses ends that statement's chain)
    dcases = [(sql, d or None, {}) for d, sql in corpus.dialect_test_sql()]
    cases = cases + dcases[::(3 if quick else 1)]
    for i in range(0, len(cases), 25):
        units.append(("rules", cases[i:i + 25]))
    res = ctx.run_shards(worker, ctx.jobs * 6, units, quick, rules)
    ctx.evidence(
        "model_checking",
        {
            "states": res["states"],
            "transitions": res["transitions"],
            "traces_validated_against_impl": res["transitions"],
            "evaluations": res["transitions"] + res["stream_trees"],
            "distinct_nontrivial": res["nontrivial"],
            "rule": "BFS over all histories of public tree operations (hash, ==, set/unset/index set/insert/delete, "
                    "append, replace, lift, pop, re-attach, replace_children, transform x 6 functions x copy, copy, "
                    "builders x copy, simplify, every optimizer rule) instantiated at every node path and list index of "
                    "8 small parsed trees; replay from scratch; state key = exact fingerprint + set of paths with a "
                    "cached hash. non-trivial = histories with a cache-populating op (hash/==) before a mutation.",
            "history_len": {"quick": "3 on 4 expression trees, 2 on 4 query trees",
                            "thorough": "4 on the smallest tree, 3 on the rest"}["quick" if quick else "thorough"],
            "ops_raising_library_errors": res["errors"],
            "eq_class_checks": res["eqpairs"],
            "stream_trees_checked": res["stream_trees"],
            "stream_nodes_checked": res["stream_nodes"],
            "exhaustive": True,
            "samples": res["samples"] or [{"tree": TREES[0][1], "history": [["hash", []], ["set", [], "this", "col"]]}],
        },
        ["only the tree reachable from each workspace root is judged; detached nodes may keep stale back-pointers",
         "values inserted are fresh nodes or nodes popped from the same tree, never nodes still attached elsewhere",
         "an operation that raises a library exception ends that history (its state is still judged once)"],
    )


def replay(ctx: Ctx, case: dict) -> bool:
    if "stream" in case:
        res = {"violations": [], "stream_trees": 0, "stream_nodes": 0}
        origin = case["stream"]
        if origin.startswith("parse"):
            d = origin[origin.index("[") + 1:-1]
            stream_unit(("parse", "" if d == "base" else d, [case["sql"]]), res)
        else:
            cases = [c for c in corpus.optimizer_cases() if c[0] == case["sql"]]
            stream_unit(("rules", cases), res)
        for v in res["violations"]:
            print(v["what"])
        return bool(res["violations"])
    hist = tuple(tuple(tuple(tuple(s) for s in x) if isinstance(x, list) else x for x in op) for op in case["history"])
    ws, obs, err = build(case["tree"], hist)
    if ws is None:
        raise HarnessError(f"replay diverged: {err}")
    probs = judge(ws, obs, {}, {})
    print("tree   :", case["tree"])
    print("history:", [treeops.op_name(o) for o in hist], "error:", err)
    for code, m in probs:
        print("  ", code, m)
    return bool(probs)
