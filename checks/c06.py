"""C06 - simplification and normal forms preserve SQL three-valued logic exactly.

States = expressions (G_bool derivations with cost <= k plus focused families), transitions = every
individual Simplifier rule invocation that changed its node (observed by wrapping the rule callables
discovered by AST-scanning Simplifier._simplify) and the complete simplify / normalize calls; invariant =
equal truth tables under EVERY assignment (NULL/TRUE/FALSE distinct). The evaluator O1 is itself validated
against DuckDB on a complete sub-enumeration."""
from __future__ import annotations

import ast
import inspect
import logging
import textwrap

import sqlglot
from sqlglot import exp
from sqlglot.optimizer import normalize as normalize_mod
from sqlglot.optimizer import simplify as simplify_mod
from sqlglot.optimizer.annotate_types import annotate_types
from sqlglot.optimizer.qualify import qualify

from vlib import oracle_3vl as o1
from vlib.grammar_bool import expressions, focused_families
from vlib.run import Ctx, HarnessError

KINDS = {"p": "bool", "q": "bool", "r": "bool", "x": "int", "y": "int"}
DIALECTS = ["", "mysql", "redshift"]  # SAFE_TO_ELIMINATE_DOUBLE_NEGATION x COALESCE_COMPARISON_NON_STANDARD


def discover_rules():
    """Names of rule callables invoked by Simplifier._simplify: self.X(...) and bare X(...)."""
    src = textwrap.dedent(inspect.getsource(simplify_mod.Simplifier._simplify))
    tree = ast.parse(src)
    methods, funcs = [], []
    for node in ast.walk(tree):
        if isinstance(node, ast.Call):
            f = node.func
            if isinstance(f, ast.Attribute) and isinstance(f.value, ast.Name) and f.value.id == "self":
                if f.attr not in methods and f.attr != "simplify":
                    methods.append(f.attr)
            elif isinstance(f, ast.Name) and f.id in vars(simplify_mod) and callable(vars(simplify_mod)[f.id]) \
                    and f.id not in ("isinstance", "tuple") and inspect.isfunction(vars(simplify_mod)[f.id]):
                if f.id not in funcs:
                    funcs.append(f.id)
    if len(methods) < 8:
        raise HarnessError(f"seam missing: only {methods} rule methods found in Simplifier._simplify")
    return methods, funcs


class Observer:
    """Wraps every rule; records (rule, before_sql, after_sql) when a rule's result is not equivalent to
    its input node under every assignment."""

    def __init__(self):
        self.methods, self.funcs = discover_rules()
        self.saved = {}
        self.events: list = []
        self.fired: dict[str, int] = {}
        self.nonnull: set = set()
        self.active = False

    def _wrap(self, name, fn, is_method):
        obs = self

        def wrapped(*args, **kwargs):
            if not obs.active:
                return fn(*args, **kwargs)
            node = args[1] if is_method else args[0]
            if not isinstance(node, exp.Expr):
                return fn(*args, **kwargs)
            before = node.copy()
            out = fn(*args, **kwargs)
            if isinstance(out, exp.Expr):
                obs.compare(name, before, out)
            return out

        return wrapped

    def compare(self, name, before, after):
        return self._compare(name, before, after)

    def _compare(self, name, before, after):
        try:
            bs = before.sql()
            as_ = after.sql()
        except Exception:
            return
        if bs == as_:
            return
        self.fired[name] = self.fired.get(name, 0) + 1
        cols = sorted(set(o1.columns_of(before)) | set(o1.columns_of(after)))
        if not all(c in KINDS for c in cols):
            return
        try:
            tb = o1.truth_table(before, cols, KINDS, self.nonnull)
            ta = o1.truth_table(after, cols, KINDS, self.nonnull)
        except o1.Unsupported:
            return
        except Exception:
            return
        if tb != ta:
            envs = list(o1.assignments(cols, KINDS, self.nonnull))
            env = next(e for e, b, a in zip(envs, tb, ta) if a != b)
            self.events.append((name, bs, as_, env, diff_class(tb, ta, envs), ops_of(before)))

    _shared = None

    @classmethod
    def shared(cls):
        if cls._shared is None:
            cls._shared = cls()
            cls._shared.install()
        return cls._shared

    def install(self):
        S = simplify_mod.Simplifier
        for m in self.methods:
            self.saved[("m", m)] = S.__dict__[m]
            setattr(S, m, self._wrap(m, S.__dict__[m], True))
        for f in self.funcs:
            self.saved[("f", f)] = vars(simplify_mod)[f]
            setattr(simplify_mod, f, self._wrap(f, vars(simplify_mod)[f], False))


SCHEMA_COLS = {"p": "BOOLEAN", "q": "BOOLEAN", "r": "BOOLEAN", "x": "INT", "y": "INT"}


def make_schema(nonnull):
    cols = {}
    for c, ty in SCHEMA_COLS.items():
        dt = exp.DataType.build(ty)
        if c in nonnull:
            dt.set("nullable", False)
        cols[c] = dt
    return {"t": cols}


def prepare(sql: str, typed: bool, nonnull=frozenset(), dialect=""):
    d = dialect or None
    if not typed:
        return sqlglot.parse_one(sql, read=d)
    q = sqlglot.parse_one(f"SELECT {sql} AS c FROM t", read=d)
    schema = make_schema(nonnull)
    q = qualify(q, schema=schema, dialect=d)
    q = annotate_types(q, schema=schema, dialect=d)
    return q.selects[0].this.copy()


def shape_of(sql: str) -> str:
    """Literal- and column-insensitive shape for signatures."""
    import re

    s = re.sub(r"\b\d+\b", "N", sql)
    s = re.sub(r"\b(t\.)?[pqr]\b", "B", s)
    s = re.sub(r"\b(t\.)?[xy]\b", "I", s)
    return s


def check_one(sql, tags, cfg, obs, res):
    typed, nonnull, dialect, cp, cs = cfg
    try:
        e = prepare(sql, typed, nonnull, dialect)
    except Exception:
        res["unprepared"] += 1
        return
    before = e.copy()
    cols = o1.columns_of(before)
    try:
        tb = o1.truth_table(before, cols, KINDS, nonnull)
    except o1.Unsupported:
        res["unsupported"] += 1
        return
    res["evaluations"] += 1
    cfgname = cfg_name(cfg)
    if obs is not None:
        obs.events.clear()
        obs.nonnull = set(nonnull)
        obs.active = True
    try:
        out = simplify_mod.simplify(e, constant_propagation=cp, coalesce_simplification=cs, dialect=dialect or None)
    except RecursionError:
        return
    except Exception as ex:
        res["crashes"][type(ex).__name__] = res["crashes"].get(type(ex).__name__, 0) + 1
        return
    finally:
        if obs is not None:
            obs.active = False
    try:
        out_sql = out.sql()
    except Exception:
        out_sql = repr(out)
    if out_sql != sql and out_sql != before.sql():
        res["changed"] += 1
    try:
        ta = o1.truth_table(out, cols, KINDS, nonnull)
    except o1.Unsupported:
        res["unsupported_after"] += 1
        ta = None
    if obs is not None:
        res["transitions"] += sum(obs.fired.values())
        obs.fired.clear()
        explained = bool(obs.events)
        for name, bs, as_, env, dc, ops in obs.events:
            if dc.startswith("null_as_"):
                # UNKNOWN treated as FALSE: one signature per (rule, operator set), see DESIGN section 4
                sig = f"C06|rule:{name}|{dc}|ops={ops}"
            else:
                sig = f"C06|rule:{name}|{dc}|{shape_of(bs)} -> {shape_of(as_)}"
            add_violation(res, sig, f"rule {name} rewrote `{bs}` to `{as_}`; they differ under {env} (input `{sql}`, config {cfgname})",
                          {"sql": sql, "cfg": cfg_json(cfg), "rule": name, "before": bs, "after": as_, "env": env})
    else:
        explained = False
    if ta is not None and ta != tb:
        if obs is None:
            # whole-call only mode (k=3): re-run once with the observer for attribution
            o2 = Observer.shared()
            r2 = dict(res, viol={}, crashes={})
            check_one(sql, tags, cfg, o2, r2)
            for sg, v in r2["viol"].items():
                add_violation(res, sg, v["what"], v["case"])
            return
        if not explained:
            envs = list(o1.assignments(cols, KINDS, nonnull))
            env = next(en for en, b, a in zip(envs, tb, ta) if a != b)
            dc = diff_class(tb, ta, envs)
            sig = f"C06|simplify|{dc}|{shape_of(sql)} -> {shape_of(out_sql)}"
            add_violation(res, sig, f"simplify(`{sql}`) = `{out_sql}`; values differ under {env} (config {cfgname}); no single rule step explains it",
                          {"sql": sql, "cfg": cfg_json(cfg), "after": out_sql, "env": env})


def in_normal_form(e, dnf: bool) -> bool:
    """Independent top-down check of the library's notion of CNF/DNF: no AND (CNF: OR ... ) connector
    of the root kind sits below a connector of the other kind. (Top-down on purpose: the returned root may
    keep a stale parent pointer, which must not influence the verdict.)"""
    below, root = (exp.And, exp.Or) if dnf else (exp.Or, exp.And)
    stack = [(e, False)]
    while stack:
        n, under = stack.pop()
        if isinstance(n, root) and under:
            return False
        under = under or isinstance(n, below)
        for v in n.args.values():
            for c in (v if isinstance(v, list) else [v]):
                if isinstance(c, exp.Expr) and not isinstance(c, exp.Query):
                    stack.append((c, under))
    return True


def check_normalize(sql, res):
    for dnf in (False, True):
        for max_distance in (128, 4, 0):
            try:
                e = sqlglot.parse_one(sql)
            except Exception:
                return
            before = e.copy()
            cols = o1.columns_of(before)
            try:
                tb = o1.truth_table(before, cols, KINDS)
            except o1.Unsupported:
                return
            res["evaluations"] += 1
            try:
                out = normalize_mod.normalize(e, dnf=dnf, max_distance=max_distance)
            except RecursionError:
                return
            except Exception as ex:
                res["crashes"][type(ex).__name__] = res["crashes"].get(type(ex).__name__, 0) + 1
                continue
            out_sql = out.sql()
            if out_sql != before.sql():
                res["changed"] += 1
                res["transitions"] += 1
            ok_form = in_normal_form(out, dnf) or out == before
            if not ok_form:
                add_violation(res, f"C06|normalize.form|dnf={dnf}|{shape_of(sql)}",
                              f"normalize(`{sql}`, dnf={dnf}, max_distance={max_distance}) = `{out_sql}` is neither in normal form nor the input",
                              {"sql": sql, "normalize": {"dnf": dnf, "max_distance": max_distance}, "after": out_sql})
            try:
                ta = o1.truth_table(out, cols, KINDS)
            except o1.Unsupported:
                continue
            if ta != tb:
                env = next(en for en, b, a in zip(o1.assignments(cols, KINDS), tb, ta) if a != b)
                add_violation(res, f"C06|normalize|dnf={dnf}|{shape_of(sql)} -> {shape_of(out_sql)}",
                              f"normalize(`{sql}`, dnf={dnf}, max_distance={max_distance}) = `{out_sql}`; values differ under {env}",
                              {"sql": sql, "normalize": {"dnf": dnf, "max_distance": max_distance}, "after": out_sql, "env": env})


def diff_class(tb, ta, envs):
    """null_as_false: the tables agree wherever no column is NULL and every difference is a NULL result
    that became FALSE (or, seen through a NOT, TRUE) - the simplifier treating UNKNOWN as FALSE."""
    only_null_rows = True
    kinds = set()
    for env, b, a in zip(envs, tb, ta):
        if a == b:
            continue
        if all(v is not None for v in env.values()):
            only_null_rows = False
        kinds.add((repr(b), repr(a)))
    if only_null_rows and kinds <= {("None", "False"), ("None", "True")}:
        return "null_as_" + "+".join(sorted(k[1].lower() for k in kinds))
    if only_null_rows:
        return "null_rows"
    return "value"


def ops_of(sql_or_expr) -> str:
    e = sqlglot.parse_one(sql_or_expr) if isinstance(sql_or_expr, str) else sql_or_expr
    names = sorted({type(n).__name__ for n in e.walk() if isinstance(n, (exp.Binary, exp.Unary, exp.Func, exp.Between, exp.In, exp.Case, exp.If))
                    and not isinstance(n, exp.Paren)})
    return "+".join(names)


def add_violation(res, sig, what, case):
    v = res["viol"].get(sig)
    if v is None:
        res["viol"][sig] = {"signature": sig, "what": what, "case": case, "count": 1}
    else:
        v["count"] += 1


def cfg_name(cfg):
    typed, nonnull, dialect, cp, cs = cfg
    return f"{'typed' if typed else 'untyped'}/nonnull={','.join(sorted(nonnull)) or '-'}/{dialect or 'base'}/cp={int(cp)}/cs={int(cs)}"


def cfg_json(cfg):
    return {"typed": cfg[0], "nonnull": sorted(cfg[1]), "dialect": cfg[2], "constant_propagation": cfg[3],
            "coalesce_simplification": cfg[4]}


def configs_for(sql_cols, level):
    """level 'full': every flag/dialect/nullability configuration; 'base': untyped + typed defaults."""
    out = [(False, frozenset(), "", False, False), (True, frozenset(), "", False, False)]
    if level == "base":
        return out
    import itertools

    cols = [c for c in ("p", "q", "r", "x", "y") if c in sql_cols]
    for n in range(1, len(cols) + 1):
        for sub in itertools.combinations(cols, n):
            out.append((True, frozenset(sub), "", False, False))
    allnn = frozenset(cols)
    for cp, cs in ((True, False), (False, True), (True, True)):
        out.append((False, frozenset(), "", cp, cs))
        out.append((True, allnn, "", cp, cs))
    for d in DIALECTS[1:]:
        out.append((False, frozenset(), d, False, True))
        out.append((True, frozenset(), d, False, True))
        out.append((True, allnn, d, False, False))
    return out


def worker(shard, nshards, plan):
    logging.disable(logging.CRITICAL)
    obs = Observer.shared()
    res = {"evaluations": 0, "transitions": 0, "changed": 0, "unsupported": 0, "unsupported_after": 0,
           "unprepared": 0, "crashes": {}, "viol": {}, "states": 0, "samples": []}
    idx = 0
    for kind, items, level, observe in plan:
        for cost, sql, tags in items:
            idx += 1
            if idx % nshards != shard:
                continue
            res["states"] += 1
            cols = set(c for c in KINDS if c in sql.replace("(", " ").replace(")", " ").replace(",", " ").split())
            for cfg in configs_for(cols, level):
                check_one(sql, tags, cfg, obs if observe else None, res)
            if kind != "k3":
                check_normalize(sql, res)
            if len(res["samples"]) < 3 and idx % 997 == shard:
                res["samples"].append({"sql": sql, "tags": list(tags), "configs": level})
    res["violations_list"] = list(res.pop("viol").values())
    return res


def validate_oracle(ctx, items):
    """O1 vs DuckDB: one query per expression evaluating it on a table holding every assignment."""
    import duckdb

    con = duckdb.connect()
    checked = mismatches = 0
    first = None
    for cost, sql, tags in items:
        try:
            e = sqlglot.parse_one(sql)
        except Exception:
            continue
        cols = o1.columns_of(e)
        envs = list(o1.assignments(cols, KINDS))
        try:
            mine = [o1.ev(e, env) for env in envs]
        except o1.Unsupported:
            continue
        if not cols:
            q = f"SELECT {e.sql('duckdb')}"
        else:
            def lit(c, v):
                ty = "BOOLEAN" if KINDS[c] == "bool" else "INT"
                return f"CAST({'NULL' if v is None else str(v).upper()} AS {ty})"
            rows = ", ".join("(" + ", ".join([str(i)] + [lit(c, env[c]) for c in cols]) + ")" for i, env in enumerate(envs))
            q = f"SELECT {e.sql('duckdb')} FROM (VALUES {rows}) AS t(i, {', '.join(cols)}) ORDER BY i"
        try:
            got = [r[0] for r in con.execute(q).fetchall()]
        except Exception:
            continue  # engine rejects (typing): not comparable
        for m, g in zip(mine, got):
            checked += 1
            if (m is None) != (g is None) or (m is not None and (bool(m) != bool(g) if isinstance(m, bool) else int(m) != int(g))):
                mismatches += 1
                first = first or (sql, m, g)
    if mismatches:
        raise HarnessError(f"oracle self-check failed: O1 disagrees with DuckDB on {mismatches} evaluations, e.g. {first}")
    return checked


def run(ctx: Ctx) -> None:
    quick = ctx.quick
    fam = [(0, sql, (f"family.{f}",)) for f, sql in focused_families(full=not quick)]
    k1 = expressions(1)
    k2 = [x for x in expressions(2) if x[0] == 2]
    plan = [("k1", k1, "full", True), ("fam", fam, "full", True), ("k2", k2, "full" if not quick else "base", True)]
    if not quick:
        k3 = [x for x in expressions(3) if x[0] == 3]
        plan.append(("k3", k3, "base", False))
    validated = validate_oracle(ctx, list(k1) + fam[::7] + k2[::40])
    res = ctx.run_shards(worker, ctx.jobs * 4, plan)
    for v in res.get("violations_list", []):
        ctx.violation(v["signature"], v["what"], v["case"], v["count"])
    ctx.evidence(
        "model_checking",
        {
            "states": res["states"],
            "transitions": res["transitions"],
            "traces_validated_against_impl": validated,
            "evaluations": res["evaluations"],
            "distinct_nontrivial": res["changed"],
            "rule": "states = G_bool derivations (cost<=1, focused families: all flag/dialect/nullability configurations; "
                    "cost 2: " + ("untyped+typed" if quick else "all configurations; cost 3: untyped+typed, whole-call only") +
                    "); transitions = individual Simplifier rule invocations that changed their node + whole simplify/normalize "
                    "calls that changed the expression; invariant = identical truth table under every assignment "
                    "(bool in {NULL,T,F}, int in {NULL,-1..4}; non-nullable columns never NULL). non-trivial = (expression, "
                    "config) pairs where simplify/normalize changed the text. traces_validated = O1-vs-DuckDB evaluations that agreed.",
            "rules_observed": Observer().methods + Observer().funcs,
            "not_evaluable_before": res["unsupported"],
            "not_evaluable_after": res["unsupported_after"],
            "crashes_not_judged_here": res["crashes"],
            "exhaustive": True,
            "samples": res["samples"][:5],
        },
        ["only well-typed expressions are generated; division is excluded",
         "per-rule steps are compared at the level of the node the rule was given (stricter than root-level)",
         "O1 (vlib/oracle_3vl.py) is the reference; it is cross-checked against DuckDB 1.5.5 in every run"],
    )


def replay(ctx: Ctx, case: dict) -> bool:
    logging.disable(logging.CRITICAL)
    res = {"evaluations": 0, "transitions": 0, "changed": 0, "unsupported": 0, "unsupported_after": 0,
           "unprepared": 0, "crashes": {}, "viol": {}, "states": 0, "samples": []}
    if "normalize" in case:
        check_normalize(case["sql"], res)
    else:
        c = case["cfg"]
        cfg = (c["typed"], frozenset(c["nonnull"]), c["dialect"], c["constant_propagation"], c["coalesce_simplification"])
        check_one(case["sql"], (), cfg, Observer.shared(), res)
    for v in res["viol"].values():
        print(v["what"])
    return bool(res["viol"])
