"""C05 - tokenize, parse and generate always terminate with a result or a sqlglot error.

Spaces (deviation = distance from a valid statement): (a) every single-token deletion / duplication /
adjacent swap (and, for the simplest seeds, insertion of each menu token at each position) of G_core k<=1
statements and a slice of identity.sql; (b) every token prefix (and char prefix of the simplest seeds);
(c) all token sequences of length <= 3 over a 40-token menu; (d) all character strings of length <= 3
over the C04 alphabet + number/keyword characters; (e) pumping families (repetition n = 1..64, nesting
n = 1..32). Every tree any of them returns is generated in its own dialect and in the base dialect.
Oracle: outcome is a return or a SqlglotError; the deterministic step count stays below a quadratic
budget (a loop that never ends hits the budget deterministically); pumping families may at most
multiply their steps by 5 when the size doubles."""
from __future__ import annotations

from vlib.paths import SQLGLOT
import itertools
import logging
import traceback

import sqlglot
from sqlglot.dialects.dialect import Dialect
from sqlglot.errors import ErrorLevel, SqlglotError
from sqlglot.tokens import TokenType

from vlib import corpus
from vlib.grammar_core import statements
from vlib.run import Ctx
from vlib.stepmeter import METER, BudgetExceeded

QUICK_DIALECTS = ["", "bigquery", "clickhouse", "duckdb", "mysql", "postgres", "snowflake", "tsql"]
MENU = ["SELECT", "FROM", "WHERE", "GROUP BY", "ORDER BY", "JOIN", "ON", "AS", "AND", "OR", "NOT", "IN", "IS", "NULL", "CASE",
        "WHEN", "THEN", "ELSE", "END", "UNION", "WITH", "INSERT", "INTO", "VALUES", "CREATE", "TABLE", "(", ")", ",", ";", ".",
        "*", "=", "+", "-", "'s'", "1", "a", "::", "[",
        # number-like lexemes that are no numbers (a builder that calls int() / to_py() on the text)
        "1e", "0x", "1.2.3"]
ALL_TARGETS: list = []
LEVELS = {"IMMEDIATE": ErrorLevel.IMMEDIATE, "RAISE": ErrorLevel.RAISE, "WARN": ErrorLevel.WARN, "IGNORE": ErrorLevel.IGNORE}


def all_dialects():
    return [""] + corpus.all_dialects()


def budget(n: int) -> int:
    return 100_000 + 2_000 * n + 20 * n * n


BUDGET_FORMULA = "100000 + 2000*n + 20*n^2 steps (n = input length in characters; PY_START+JUMP events in sqlglot code)"


def innermost_sqlglot_frame(exc) -> str:
    tb = traceback.extract_tb(exc.__traceback__)
    for fr in reversed(tb):
        if fr.filename.startswith(SQLGLOT):
            return f"{fr.filename.rsplit('/', 1)[-1]}:{fr.name}"
    return "?"


class Runner:
    def __init__(self, res):
        self.res = res

    def record(self, phase, dialect, level, sql, exc, steps, n):
        if isinstance(exc, BudgetExceeded):
            sig = f"C05|budget|{phase}|{dialect or 'base'}"
            what = f"[{dialect or 'base'}/{level}] {phase} of {sql!r} exceeded the step budget {budget(n)} (n={n}): {exc}"
        elif isinstance(exc, RecursionError):
            sig = f"C05|{phase}|RecursionError|{dialect or 'base'}"
            what = f"[{dialect or 'base'}/{level}] {phase} of {sql!r} leaked RecursionError"
        else:
            where = innermost_sqlglot_frame(exc)
            sig = f"C05|{phase}|{type(exc).__name__}|{where}"
            what = f"[{dialect or 'base'}/{level}] {phase} of {sql!r} leaked {type(exc).__name__}: {str(exc)[:100]} (raised in {where})"
        v = self.res["viol"].get(sig)
        if v is None:
            self.res["viol"][sig] = {"what": what, "case": {"dialect": dialect, "level": level, "sql": sql, "phase": phase}, "count": 1}
        else:
            v["count"] += 1
            if len(sql) < len(v["case"]["sql"]):
                v.update(what=what, case={"dialect": dialect, "level": level, "sql": sql, "phase": phase})

    def one(self, sql: str, dialect: str, levels, generate=True):
        """tokenize + parse under each level (+ generate every returned tree). Returns steps of the first parse."""
        res = self.res
        D = Dialect.get_or_raise(dialect or None)
        n = len(sql)
        first_steps = None
        toks, exc, steps = METER.run(lambda: D.tokenize(sql), budget(n))
        res["evaluations"] += 1
        if exc is not None:
            if not isinstance(exc, SqlglotError):
                self.record("tokenize", dialect, "-", sql, exc, steps, n)
            return steps
        for lname in levels:
            lvl = LEVELS[lname]
            trees, exc, steps = METER.run(lambda: D.parser(error_level=lvl).parse(toks, sql), budget(n))
            res["evaluations"] += 1
            if first_steps is None:
                first_steps = steps
            if exc is not None:
                if isinstance(exc, SqlglotError):
                    res["nontrivial"] += 1
                else:
                    self.record("parse", dialect, lname, sql, exc, steps, n)
                continue
            if generate and trees:
                for tree in trees:
                    if tree is None:
                        continue
                    for target in ({dialect, ""} if lname in ("IMMEDIATE", "IGNORE") else {dialect}):
                        for ul in (ErrorLevel.WARN, ErrorLevel.RAISE) if lname == "IMMEDIATE" else (ErrorLevel.WARN,):
                            out, exc, steps = METER.run(lambda: tree.sql(dialect=target or None, unsupported_level=ul), budget(n) * 4)
                            res["evaluations"] += 1
                            if exc is not None and not isinstance(exc, SqlglotError):
                                self.record("generate", target, lname, sql, exc, steps, n)
        return first_steps


def token_spans(D, sql):
    try:
        return [(t.start, t.end + 1) for t in D.tokenize(sql)]
    except Exception:
        return []


def mutants(sql, spans, with_insert):
    out = []
    for i, (a, b) in enumerate(spans):
        out.append(sql[:a] + sql[b:])                       # delete
        out.append(sql[:b] + " " + sql[a:b] + sql[b:])      # duplicate
        if i + 1 < len(spans):
            c, d = spans[i + 1]
            out.append(sql[:a] + sql[c:d] + sql[b:c] + sql[a:b] + sql[d:])   # swap
        if with_insert:
            for m in MENU:
                out.append(sql[:a] + m + " " + sql[a:])
    if with_insert:
        for m in MENU:
            out.append(sql + " " + m)
    return out


def pumping_families():
    fams = []
    rep = {
        "and": lambda n: "SELECT " + " AND ".join(["a"] * (n + 1)),
        "add": lambda n: "SELECT " + " + ".join(["a"] * (n + 1)),
        "dots": lambda n: "SELECT " + ".".join(["a"] * (n + 1)),
        "in_list": lambda n: "SELECT a IN (" + ", ".join(["1"] * (n + 1)) + ")",
        "projections": lambda n: "SELECT " + ", ".join(["a"] * (n + 1)) + " FROM t",
        "union": lambda n: " UNION ".join(["SELECT a FROM t"] * (n + 1)),
        "joins": lambda n: "SELECT a FROM t" + " JOIN u ON t.a = u.a" * n,
        "whens": lambda n: "SELECT CASE" + " WHEN a THEN b" * (n + 1) + " END",
        "ctes": lambda n: "WITH " + ", ".join(f"c{i} AS (SELECT 1)" for i in range(n + 1)) + " SELECT 1",
        "casts": lambda n: "SELECT a" + "::INT" * (n + 1),
        "brackets": lambda n: "SELECT a" + "[1]" * (n + 1),
        "commas_only": lambda n: "SELECT " + "," * (n + 1),
        "not": lambda n: "SELECT " + "NOT " * (n + 1) + "a",
        "neg": lambda n: "SELECT " + "- " * (n + 1) + "a",
        "semicolons": lambda n: ";".join(["SELECT 1"] * (n + 1)),
        "comments": lambda n: "SELECT a " + "/* c */ " * (n + 1) + "FROM t",
        "string_escapes": lambda n: "SELECT '" + "''" * (n + 1) + "'",
    }
    nest = {
        "parens": lambda n: "SELECT " + "(" * n + "a" + ")" * n,
        "case": lambda n: "SELECT " + "CASE WHEN a THEN " * n + "b" + " END" * n,
        "subquery": lambda n: "SELECT a FROM " + "(SELECT a FROM " * n + "t" + ") AS s" * n,
        "calls": lambda n: "SELECT " + "f(" * n + "a" + ")" * n,
        "scalar_subquery": lambda n: "SELECT " + "(SELECT " * n + "1" + ")" * n,
        "unclosed_calls": lambda n: "SELECT " + "f(" * n,
        "open_parens": lambda n: "SELECT " + "(" * n,
        "ifs": lambda n: "SELECT " + "IF(a, " * n + "1" + ", 2)" * n,
    }
    # every construct with an expression / query hole, nested in itself (a parser that tries one reading of the construct, gives up
    # and reads it again doubles its work per level)
    expr_t = {
        "cast": "CAST({x} AS INT)", "dcolon_paren": "({x})::INT", "case_operand": "CASE {x} WHEN 1 THEN 2 END", "case_then": "CASE WHEN a THEN {x} END",
        "in_list": "a IN ({x})", "in_left": "({x}) IN (1)", "array": "ARRAY[{x}]", "bracket_list": "[{x}]", "brace": "{{'k': {x}}}", "struct": "STRUCT({x})",
        "index": "arr[{x}]", "lambda": "f(x -> {x})", "interval": "INTERVAL ({x}) DAY", "between": "({x}) BETWEEN 1 AND 2", "is_null": "({x}) IS NULL",
        "at_tz": "({x}) AT TIME ZONE 'UTC'", "coalesce": "COALESCE({x}, 1)", "extract": "EXTRACT(DAY FROM {x})", "date_add": "DATE_ADD({x}, INTERVAL 1 DAY)",
        "trim": "TRIM({x})", "substring": "SUBSTRING({x} FROM 1)", "tuple": "({x}, 1)", "row": "ROW({x})", "map": "MAP({x}, 1)", "json": "JSON_EXTRACT({x}, '$.a')",
        "arrow": "({x}) -> 'a'", "exists": "EXISTS (SELECT {x})", "in_subquery": "a IN (SELECT {x})", "any": "a = ANY (SELECT {x})", "over": "SUM({x}) OVER ()",
        "filter": "COUNT(*) FILTER (WHERE {x})", "typed_literal": "DATE({x})", "type_call": "INT({x})", "timestamp_call": "TIMESTAMP({x})", "if": "IF({x}, 1, 2)",
        "like": "({x}) LIKE 'a'", "concat": "({x}) || 'a'", "try_cast": "TRY_CAST({x} AS TEXT)", "convert": "CONVERT(INT, {x})", "position": "POSITION({x} IN s)",
    }
    stmt_t = {
        "limit": "SELECT a LIMIT ({x})", "offset": "SELECT a LIMIT 1 OFFSET ({x})", "where_in": "SELECT a FROM t WHERE a IN ({x})", "from": "SELECT * FROM ({x}) AS s",
        "cte": "WITH c AS ({x}) SELECT * FROM c", "projection": "SELECT ({x})", "where_exists": "SELECT a FROM t WHERE EXISTS ({x})", "order": "SELECT a FROM t ORDER BY ({x})",
        "group": "SELECT a FROM t GROUP BY ({x})", "having": "SELECT a FROM t GROUP BY a HAVING ({x}) > 1", "qualify": "SELECT a FROM t QUALIFY ({x}) > 1",
        "values": "VALUES (({x}))", "union_paren": "({x}) UNION ALL SELECT 1", "join": "SELECT * FROM t JOIN ({x}) AS s ON TRUE", "lateral": "SELECT * FROM t, LATERAL ({x}) AS s",
        "insert": "INSERT INTO t ({x})", "create_as": "CREATE TABLE t AS ({x})", "top": "SELECT TOP ({x}) a FROM t", "fetch": "SELECT a FROM t FETCH FIRST ({x}) ROWS ONLY",
    }

    def nester(tmpl, base):
        def f(n):
            s = base
            for _ in range(n):
                s = tmpl.replace("{x}", s).replace("{{", "{").replace("}}", "}")
            return s
        return f

    for name, tmpl in expr_t.items():
        g = nester(tmpl, "a")
        fams.append(("nestx." + name, (lambda n, g=g: "SELECT " + g(n)), [2, 4, 8]))
    for name, tmpl in stmt_t.items():
        fams.append(("nests." + name, nester(tmpl, "SELECT 1"), [2, 4, 8]))
    for name, f in rep.items():
        fams.append(("rep." + name, f, [1, 2, 4, 8, 16, 32, 64]))
    for name, f in nest.items():
        fams.append(("nest." + name, f, [1, 2, 4, 8, 16, 32]))
    return fams


def worker(shard, nshards, plan, quick):
    logging.disable(logging.CRITICAL)
    ALL_TARGETS[:] = all_dialects()
    METER.install()
    res = {"evaluations": 0, "nontrivial": 0, "viol": {}, "samples": [], "max_steps_per_char": 0.0, "recursion_depth_seen": {}}
    R = Runner(res)
    idx = 0
    for unit in plan:
        kind, dialect = unit[0], unit[1]
        D = Dialect.get_or_raise(dialect or None)
        if kind == "mutants":
            _, _, seeds, levels, with_insert = unit
            for sql in seeds:
                idx += 1
                if idx % nshards != shard:
                    continue
                spans = token_spans(D, sql)
                R.one(sql, dialect, levels)
                seen = set()
                for m in mutants(sql, spans, with_insert):
                    if m in seen:
                        continue
                    seen.add(m)
                    R.one(m, dialect, levels)
                for a, b in spans:                      # (b) token prefixes, under every level (lenient levels keep going at end of input)
                    R.one(sql[:b], dialect, levels, generate=False)
                if with_insert:
                    for i in range(len(sql)):           # char prefixes
                        R.one(sql[:i], dialect, levels[:1], generate=False)
                if len(res["samples"]) < 2:
                    res["samples"].append({"space": "mutants", "dialect": dialect or "base", "seed": sql})
        elif kind == "transpile_all":
            # trees the parser returns for a statement, generated into EVERY dialect (cross-dialect transforms on dialect-only nodes)
            _, _, seeds = unit
            for sql in seeds:
                idx += 1
                if idx % nshards != shard:
                    continue
                n = len(sql)
                try:
                    trees = [t for t in D.parse(sql) if t is not None]
                except Exception:
                    continue
                for tree in trees:
                    for target in ALL_TARGETS:
                        out, exc, steps = METER.run(lambda: tree.sql(dialect=target or None, unsupported_level=ErrorLevel.IGNORE), budget(n) * 4)
                        res["evaluations"] += 1
                        if exc is not None and not isinstance(exc, SqlglotError):
                            R.record("generate", target, f"transpile:{dialect}", sql, exc, steps, n)
        elif kind == "arity":
            # every function name the dialect's parser registers (FUNCTIONS, FUNCTION_PARSERS, NO_PAREN_FUNCTION_PARSERS) called
            # with 0..5 positional arguments of mixed kinds: builders that index into their argument list
            P = D.parser_class
            names = sorted(set(getattr(P, "FUNCTIONS", {})) | set(getattr(P, "FUNCTION_PARSERS", {})))
            argv = ["a", "1", "'x'", "b", "2"]
            for name in names:
                idx += 1
                if idx % nshards != shard:
                    continue
                for n_args in range(0, 6):
                    R.one(f"SELECT {name}({', '.join(argv[:n_args])}) FROM t", dialect, unit[2])
                R.one(f"SELECT {name}(DISTINCT a) FROM t", dialect, unit[2])
                R.one(f"SELECT {name}(*) FROM t", dialect, unit[2])
                R.one(f"SELECT {name}(a => 1, b => 2) FROM t", dialect, unit[2])
        elif kind == "soups":
            _, _, n, levels = unit
            for ln in range(1, n + 1):
                for combo in itertools.product(MENU, repeat=ln):
                    idx += 1
                    if idx % nshards != shard:
                        continue
                    R.one(" ".join(combo), dialect, levels)
        elif kind == "chars":
            _, _, alpha, n, levels = unit
            for ln in range(1, n + 1):
                for combo in itertools.product(alpha, repeat=ln):
                    idx += 1
                    if idx % nshards != shard:
                        continue
                    R.one("".join(combo), dialect, levels, generate=False)
        elif kind == "fn_nest":
            # every function name the parser registers, every type keyword and an unknown name, nested in itself to depth 4 and 8
            P = D.parser_class
            types = {k for k, v in D.tokenizer_class.KEYWORDS.items() if v in P.TYPE_TOKENS and " " not in k and k.replace("_", "").isalnum()}
            names = sorted(set(getattr(P, "FUNCTIONS", {})) | set(getattr(P, "FUNCTION_PARSERS", {})) | types | {"F"})
            grew = []
            for name in names:
                idx += 1
                if idx % nshards != shard:
                    continue
                s5 = R.one("SELECT " + (name + "(") * 4 + "a" + ")" * 4, dialect, unit[2][:1], generate=False)
                sql10 = "SELECT " + (name + "(") * 8 + "a" + ")" * 8
                before = set(res["viol"])
                s10 = R.one(sql10, dialect, unit[2][:1], generate=False)
                for k in [k for k in set(res["viol"]) - before if k.startswith("C05|budget|")]:
                    res["viol"].pop(k)   # the budget was exhausted at depth 8: growth of this name, reported below
                    s10 = budget(len(sql10))
                if s5 and s10 and s10 > 5 * s5 + 2000:
                    grew.append((name, s5, s10, sql10, name in types))
            res.setdefault("fn_grew", []).extend((dialect, len(names)) + g for g in grew)
        elif kind == "pump":
            _, _, levels = unit
            for name, f, sizes in pumping_families():
                idx += 1
                if idx % nshards != shard:
                    continue
                prev = None
                prev_sql = None
                for n in sizes:
                    sql = f(n)
                    before = set(res["viol"])
                    steps = R.one(sql, dialect, levels)
                    # a step budget exceeded inside a pumping family is growth of that family (reported once, with the family's name)
                    blown = [k for k in set(res["viol"]) - before if k.startswith("C05|budget|")]
                    for k in blown:
                        v = res["viol"].pop(k)
                        sig = f"C05|growth|{name}|{k.split('|')[2]}"
                        if sig in res["viol"]:
                            res["viol"][sig]["count"] += 1
                        else:
                            res["viol"][sig] = {"what": f"[{dialect or 'base'}] family {name} at n={n}: " + v["what"], "case": dict(v["case"], growth_from=prev_sql), "count": 1}
                    if steps:
                        res["max_steps_per_char"] = max(res["max_steps_per_char"], steps / max(len(sql), 1))
                    if prev and steps and n >= 8 and steps > 5 * prev + 2000 and not blown:
                        sig = f"C05|growth|{name}|parse"
                        if sig in res["viol"]:
                            res["viol"][sig]["count"] += 1
                        else:
                            res["viol"][sig] = {"what": f"[{dialect or 'base'}] family {name}: parse steps grew from {prev} to {steps} when n doubled to {n}",
                                                "case": {"dialect": dialect, "level": levels[0], "sql": sql, "phase": "parse", "growth_from": prev_sql}, "count": 1}
                    prev = steps
                    prev_sql = sql
    res["viol"] = list(res["viol"].items())
    return res


def char_alphabet():
    return [" ", "\n", "'", '"', "`", "\\", "$", "-", "/", "*", "#", ".", ",", ";", "(", ")", "[", "{", ":", "=", "<", "@", "?",
            "e", "x", "b", "0", "1", "_", "a", "N", "%", "\0", "é",
            # letters whose upper / lower case form is LONGER than the letter (a scanner that rewinds by the length of a case-folded text)
            "ß", "İ"]


def run(ctx: Ctx) -> None:
    quick = ctx.quick
    dialects = QUICK_DIALECTS if quick else all_dialects()
    ident = corpus.identity_sql()
    plan = []
    for d in dialects:
        k0 = [s for c, s, t in statements(d, 0)] + ["SELECT a FROM t WHERE a = 1 GROUP BY a ORDER BY a"]
        k1 = [s for c, s, t in statements(d, 1) if c == 1]
        lv_all = ["IMMEDIATE", "RAISE", "WARN", "IGNORE"]
        lv2 = ["IMMEDIATE", "IGNORE"]
        plan.append(("mutants", d, k0 + ident[:30 if quick else 120:1], lv_all, True))
        plan.append(("mutants", d, k1 if not quick else k1[::2], lv2 if quick else lv_all, False))
        # delete / duplicate / swap mutants and prefixes of the whole fixture corpus (quick: base + 3 dialects)
        plan.append(("mutants", d, (ident[30:] if d in ("", "duckdb", "bigquery", "tsql") else ident[30:130]) if quick else ident[120:], lv2, False))
        plan.append(("soups", d, 3 if (quick or d) else 4, lv2))
        plan.append(("pump", d, lv2))
    for d in all_dialects():
        plan.append(("fn_nest", d, ["IMMEDIATE"]))
        if d not in dialects:
            plan.append(("pump", d, ["IMMEDIATE"]))
    # (f) every delete / duplicate / swap mutant and token prefix of every statement the repository's own dialect tests
    # contain, in that statement's dialect (dialect-only syntax: COPY options, WITH (...) properties, hints, procedural bodies)
    by_d = {}
    for d, sql in corpus.dialect_test_sql():
        by_d.setdefault(d, []).append(sql)
    for d, sqls in sorted(by_d.items()):
        plan.append(("mutants", d, sqls, ["IMMEDIATE", "IGNORE"] if quick else ["IMMEDIATE", "RAISE", "WARN", "IGNORE"], False))
    for d in all_dialects():
        plan.append(("arity", d, ["IMMEDIATE", "IGNORE"] if quick else ["IMMEDIATE", "RAISE", "WARN", "IGNORE"]))
    from vlib.grammar_clauses import clause_statements

    cl = [sql for sql, tags in clause_statements()]
    for i in range(0, len(cl), 150):
        plan.append(("transpile_all", "", cl[i:i + 150]))
    for d, sqls in sorted(by_d.items()):
        for i in range(0, len(sqls), 150):
            plan.append(("transpile_all", d, sqls[i:i + 150]))
    for d in (dialects if quick else all_dialects()):
        plan.append(("chars", d, char_alphabet(), 3 if quick else 4, ["IMMEDIATE"]))
    if quick:
        for d in all_dialects():
            if d not in dialects:
                plan.append(("chars", d, char_alphabet(), 2, ["IMMEDIATE"]))   # every dialect's tokenizer sees every pair of characters
    res = ctx.run_shards(worker, ctx.jobs * 4, plan, quick)
    viol = {}
    for sig, v in res["viol"]:
        if sig in viol:
            viol[sig]["count"] += v["count"]
            if len(v["case"]["sql"]) < len(viol[sig]["case"]["sql"]):
                viol[sig].update(what=v["what"], case=v["case"])
        else:
            viol[sig] = v
    # nested function names whose parse work more than quintuples when the depth doubles, grouped by cause: a dialect in which
    # (nearly) every name does it; type keywords (read as a type first, then again as a function); single names otherwise
    per_d: dict = {}
    for d, n_names, name, s5, s10, sql10, is_type in res.get("fn_grew", []):
        per_d.setdefault(d, {"n": n_names, "hits": []})["hits"].append((name, s5, s10, sql10, is_type))
    fn_summary = {}
    for d, info in sorted(per_d.items()):
        hits = sorted(info["hits"])
        fn_summary[d or "base"] = len(hits)
        if len(hits) * 2 > info["n"]:
            name, s5, s10, sql10, _ = next((h for h in hits if h[0] == "F"), hits[0])
            viol[f"C05|growth|nest.fn:any|{d or 'base'}"] = {"what": f"[{d or 'base'}] {len(hits)} of {info['n']} function names (e.g. {name}): parse steps grow from {s5} (4 nested calls) to {s10} (8 nested calls)",
                                                            "case": {"dialect": d, "level": "IMMEDIATE", "sql": sql10, "phase": "parse", "growth_from": "SELECT " + (name + "(") * 4 + "a" + ")" * 4}, "count": len(hits)}
            continue
        for name, s5, s10, sql10, is_type in hits:
            sig = "C05|growth|nest.fn:type_keyword" if is_type else f"C05|growth|nest.fn:{name}"
            if sig in viol:
                viol[sig]["count"] += 1
            else:
                viol[sig] = {"what": f"[{d or 'base'}] nested calls of {name}: parse steps grow from {s5} (depth 4) to {s10} (depth 8)" + (" - the name is a type keyword; every such name behaves alike" if is_type else ""),
                             "case": {"dialect": d, "level": "IMMEDIATE", "sql": sql10, "phase": "parse", "growth_from": "SELECT " + (name + "(") * 4 + "a" + ")" * 4}, "count": 1}
    for sig, v in sorted(viol.items()):
        ctx.violation(sig, v["what"], v["case"], v["count"])
    ctx.evidence(
        "exploration",
        {
            "evaluations": res["evaluations"],
            "distinct_nontrivial": res["nontrivial"],
            "rule": "every 1-token mutant (delete/duplicate/swap; insert of each of 43 menu tokens for the simplest seeds) and every prefix of "
                    "G_core k<=1 statements, of identity.sql and of every statement of tests/dialects/*.py in its own dialect (" + str(len(corpus.dialect_test_sql())) + " seeds); every token soup of length <= 3 over the 43-token menu; every "
                    "character string of length <= 3 over a 36-character alphabet; 84 pumping families (repetition to 64, nesting to 32; every construct with an expression / query hole nested in itself to 8) in all dialects; every registered function name and type keyword nested in itself to depth 4 and 8; x dialects x "
                    "error levels; every returned tree generated in its own and the base dialect; every G_clauses statement (base) and every "
                    "dialect-test statement (own dialect) generated into ALL dialects; every function name registered by each dialect's parser called "
                    "with 0..5 positional arguments, DISTINCT, * and named arguments. non-trivial = runs that ended in a "
                    "sqlglot error (the error paths were driven).",
            "step_budget": BUDGET_FORMULA,
            "nested_function_names_with_superquadratic_growth_per_dialect": fn_summary,
            "max_steps_per_char_in_pumping": round(res["max_steps_per_char"], 1),
            "dialects": len(dialects),
            "exhaustive": True,
            "samples": res["samples"][:4],
        },
        ["nesting families are judged to depth 32 (deeper nesting exhausts Python's recursion limit: known finding)",
         "the step budget is a fixed quadratic; a regression that stays below it is not detected"],
    )


def replay(ctx: Ctx, case: dict) -> bool:
    logging.disable(logging.CRITICAL)
    METER.install()
    res = {"evaluations": 0, "nontrivial": 0, "viol": {}, "samples": [], "max_steps_per_char": 0.0}
    R = Runner(res)
    if str(case.get("level", "")).startswith("transpile:"):
        src = case["level"].split(":", 1)[1]
        ALL_TARGETS[:] = [case["dialect"]]
        worker_res = worker(0, 1, [("transpile_all", src, [case["sql"]])], True)
        for sig, v in worker_res["viol"]:
            print(sig, "|", v["what"])
        return bool(worker_res["viol"])
    if case.get("growth_from"):
        a = R.one(case["growth_from"], case["dialect"], [case.get("level") or "IMMEDIATE"], generate=False)
        b = R.one(case["sql"], case["dialect"], [case.get("level") or "IMMEDIATE"], generate=False)
        print(f"steps {a} -> {b} when the size doubles")
        return bool(res["viol"]) or bool(a and b and b > 5 * a + 2000)
    lv = [case["level"]] if case.get("level") in LEVELS else ["IMMEDIATE", "IGNORE"]
    R.one(case["sql"], case["dialect"] if case["phase"] != "generate" else case["dialect"], lv)
    if case["phase"] == "generate":
        for d in all_dialects():
            if res["viol"]:
                break
            R.one(case["sql"], d, lv)
    for sig, v in res["viol"].items():
        print(sig, "|", v["what"])
    return bool(res["viol"])
