"""C04 - quoting of strings, identifiers and comments is lossless and inescapable.

All strings v of length <= L over an adversarial alphabet computed from every dialect's tokenizer
(quote / identifier / format-string delimiters, escape characters, escaped-sequence characters, comment
markers, control characters, the generator's line-break sentinel) x all dialects x kinds x options.
Oracle: tokenizing the generated SQL gives exactly one payload token whose text is v; an embedded value
leaves the surrounding token-type sequence unchanged; a comment never changes the other tokens."""
from __future__ import annotations

import itertools
import logging

from sqlglot import exp, parse_one
from sqlglot.dialects.dialect import Dialect
from sqlglot.errors import SqlglotError
from sqlglot.generator import Generator
from sqlglot.tokens import TokenType

from vlib import corpus
from vlib.run import Ctx

STRINGISH = {TokenType.STRING, TokenType.NATIONAL_STRING, TokenType.RAW_STRING, TokenType.BYTE_STRING,
             TokenType.HEREDOC_STRING, TokenType.UNICODE_STRING}


def all_dialects():
    return [""] + corpus.all_dialects()


def alphabet() -> list[str]:
    chars: set[str] = set()
    for d in all_dialects():
        D = Dialect.get_or_raise(d or None)
        T = D.tokenizer_class
        for q in list(T.QUOTES) + list(T.IDENTIFIERS):
            for part in ((q,) if isinstance(q, str) else q):
                chars.update(part)
        for esc in list(T.STRING_ESCAPES) + list(getattr(T, "IDENTIFIER_ESCAPES", [])):
            chars.update(esc)
        for k, v in D.UNESCAPED_SEQUENCES.items():
            chars.update(k[-1:])
            chars.update(v)
        for c in T.COMMENTS:
            for part in ((c,) if isinstance(c, str) else c):
                chars.update(part)
        for start in getattr(T, "_FORMAT_STRINGS", {}):
            chars.update(start[-1:])
    chars.update("\n\r\0\t ${}%an0")
    chars = {c for c in chars if not (c.isalpha() and c not in "an")}
    atoms = sorted(chars) + [Generator.SENTINEL_LINE_BREAK, "sqlglot.meta"]
    return atoms


def toks(dialect, sql):
    return Dialect.get_or_raise(dialect or None).tokenize(sql)


def gen(node, dialect, opts):
    return node.sql(dialect=dialect or None, **opts)


def check_value(v: str, dialect: str, kind: str, opts: dict):
    """None if fine / not applicable, else (problem, sql)."""
    d = dialect or None
    try:
        if kind == "str":
            sql = gen(exp.Literal.string(v), dialect, opts)
            return single_token(dialect, sql, v, STRINGISH)
        if kind == "ident":
            sql = gen(exp.to_identifier(v, quoted=True), dialect, opts)
            return single_token(dialect, sql, v, {TokenType.IDENTIFIER, TokenType.VAR, TokenType.STRING})
        if kind == "ident_auto":
            # an identifier WITHOUT the quoted flag: the generator decides. Emitted bare it is the caller's text and not
            # judged; where the generator promises to quote by itself (identify=True; a name starting with a digit in a
            # dialect whose identifiers cannot) the result must be exactly one identifier token named v.
            sql = gen(exp.Identifier(this=v), dialect, opts)
            D = Dialect.get_or_raise(d)
            must_quote = opts.get("identify") is True or (not D.IDENTIFIERS_CAN_START_WITH_DIGIT and v[:1].isdigit())
            if not must_quote:
                return None
            return single_token(dialect, sql, v, {TokenType.IDENTIFIER, TokenType.VAR, TokenType.STRING})
        if kind == "raw":
            sql = gen(exp.RawString(this=v), dialect, opts)
            return single_token(dialect, sql, v, STRINGISH, raw=True)
        if kind == "national":
            sql = gen(exp.National(this=v), dialect, opts)
            return single_token(dialect, sql, v, STRINGISH, allow_prefix=True)
        if kind == "embedded":
            def build(val):
                return exp.select(exp.alias_(exp.Literal.string(val), exp.to_identifier(val, quoted=True))).from_(
                    exp.Table(this=exp.to_identifier(val, quoted=True))).where(
                    exp.EQ(this=exp.column(exp.to_identifier(val, quoted=True)), expression=exp.Literal.string(val)))
            sql = gen(build(v), dialect, opts)
            ref = gen(build("a"), dialect, opts)
            t1, t0 = toks(dialect, sql), toks(dialect, ref)
            if [t.token_type for t in t1] != [t.token_type for t in t0]:
                return ("token type sequence differs from the harmless value's", sql)
            for a, b in zip(t1, t0):
                if b.text == "a":
                    if a.text != v:
                        return (f"payload token reads {a.text!r}", sql)
                elif a.text != b.text:
                    return (f"non-payload token changed: {b.text!r} -> {a.text!r}", sql)
            return None
        if kind == "sequence":
            # the value as two DIFFERENT kinds of quoted text in one statement, in both orders: the statement's tokens must be
            # those of the two pieces generated alone (state that one piece leaves in the generator must not reach the next)
            makers = {"str": exp.Literal.string, "raw": lambda x: exp.RawString(this=x), "national": lambda x: exp.National(this=x),
                      "ident": lambda x: exp.to_identifier(x, quoted=True), "unicode": lambda x: exp.UnicodeString(this=x),
                      "byte": lambda x: exp.ByteString(this=x)}
            alone = {}
            for k, mk in makers.items():
                try:
                    alone[k] = [(t.token_type, t.text) for t in toks(dialect, gen(mk(v), dialect, opts))]
                except Exception:
                    alone[k] = None   # this kind does not render / lex on its own here: judged (or excused) by its own kind
            for k1, k2 in itertools.permutations(makers, 2):
                if not alone[k1] or not alone[k2] or len(alone[k1]) != 1 or len(alone[k2]) != 1 or alone[k1][0][1] != v or alone[k2][0][1] != v:
                    # a kind this dialect has no literal form for (renders to nothing or to a call), or that does not carry this value
                    # on its own (its own kind's finding), is not a piece whose neighbour could be blamed
                    continue
                sql = gen(exp.Tuple(expressions=[makers[k1](v), makers[k2](v)]), dialect, opts)
                got = [(t.token_type, t.text) for t in toks(dialect, sql)]
                want_mid = alone[k1] + [(TokenType.COMMA, ",")] + alone[k2]
                if got[1:-1] != want_mid:
                    return (f"{k1} followed by {k2} in one statement lexes as {[x[1] for x in got[1:-1]]}, generated alone they lex as {[x[1] for x in want_mid]}", sql)
            return None
        if kind == "comment":
            tree = parse_one("SELECT a, b FROM t WHERE c = 1")
            tree.selects[0].add_comments([v])
            tree.add_comments([v])
            tree.args["where"].this.add_comments([v])
            with_c = gen(tree, dialect, dict(opts, comments=True))
            without = gen(tree, dialect, dict(opts, comments=False))
            t1 = [(t.token_type, t.text) for t in toks(dialect, with_c)]
            t0 = [(t.token_type, t.text) for t in toks(dialect, without)]
            if t1 != t0:
                return ("comment changed the statement's tokens", with_c)
            if len(v.strip()) >= 3 and v.strip() in without:
                return ("comments=False output contains the comment text", without)
            return None
    except SqlglotError as e:
        if type(e).__name__ == "TokenError":
            return (f"generated SQL does not lex: {str(e)[:80]}", locals().get("sql", "?"))
        return None  # declared unsupported
    raise KeyError(kind)


def single_token(dialect, sql, v, types, raw=False, allow_prefix=False):
    ts = toks(dialect, sql)
    if len(ts) != 1:
        # a dialect may legitimately render through a function call (e.g. CHR / CONCAT); then the value
        # must still be recoverable - not modelled, so only a single-token rendering is accepted
        return (f"{len(ts)} tokens instead of one", sql)
    t = ts[0]
    if t.token_type not in types:
        return (f"token type {t.token_type.name}", sql)
    if t.text != v:
        return (f"token text {t.text!r}", sql)
    return None


KINDS = ["str", "ident", "ident_auto", "embedded", "comment", "raw", "national", "sequence"]
OPTS = {"default": {}, "pretty": {"pretty": True}, "identify": {"identify": True}}


COMMENT_ATOMS = ["/", "*", "-", "#", "\n", " ", "a", "'"]


def worker(shard, nshards, dialects, atoms, L, Lfull):
    logging.disable(logging.CRITICAL)
    res = {"evaluations": 0, "nontrivial": 0, "viol": {}, "samples": []}
    idx = 0
    special_by_dialect = {}
    for d in dialects:
        D = Dialect.get_or_raise(d or None)
        T = D.tokenizer_class
        sp = set()
        for q in list(T.QUOTES) + list(T.IDENTIFIERS) + list(T.STRING_ESCAPES):
            for part in ((q,) if isinstance(q, str) else q):
                sp.update(part)
        sp.update("\n\r\0\\")
        special_by_dialect[d] = sp
    for ln in range(1, L + 1):
        for combo in itertools.product(atoms, repeat=ln):
            idx += 1
            if idx % nshards != shard:
                continue
            v = "".join(combo)
            for d in dialects:
                nontriv = any(c in special_by_dialect[d] for c in v)
                for kind in KINDS:
                    if ln > Lfull and kind not in ("str", "ident", "ident_auto"):
                        continue  # beyond Lfull only the core kinds are enumerated
                    for on, opts in OPTS.items():
                        if kind == "ident_auto":
                            if on == "pretty" or (on == "default" and ln > 2):
                                continue   # identify=True at every length (that is where the generator quotes by itself)
                        elif on != "default" and (ln > 2 or kind in ("raw", "national", "sequence")):
                            continue
                        res["evaluations"] += 1
                        if nontriv and on == "default" and kind == "str":
                            res["nontrivial"] += 1
                        r = check_value(v, d, kind, opts)
                        if r is not None:
                            key = (kind, d or "base", on, tuple(sorted(set(combo))))
                            if key not in res["viol"]:
                                res["viol"][key] = {"v": v, "problem": r[0], "sql": r[1], "count": 1}
                            else:
                                res["viol"][key]["count"] += 1
            if len(res["samples"]) < 3 and idx % 3001 == shard:
                res["samples"].append({"value": v})
    # comment texts built from the comment markers themselves, one level deeper (overlapping / nested markers)
    for ln in range(1, L + 2):
        for combo in itertools.product(COMMENT_ATOMS, repeat=ln):
            idx += 1
            if idx % nshards != shard:
                continue
            v = "".join(combo)
            if not v.strip():
                continue
            for d in dialects:
                res["evaluations"] += 1
                r = check_value(v, d, "comment", {})
                if r is not None:
                    key = ("comment", d or "base", "default", tuple(sorted(set(combo))))
                    if key not in res["viol"]:
                        res["viol"][key] = {"v": v, "problem": r[0], "sql": r[1], "count": 1}
                    else:
                        res["viol"][key]["count"] += 1
    res["viol"] = list(res["viol"].items())
    return res


def run(ctx: Ctx) -> None:
    atoms = alphabet()
    L, Lfull = (3, 2) if ctx.quick else (4, 3)
    dialects = all_dialects()
    res = ctx.run_shards(worker, ctx.jobs * 4, dialects, atoms, L, Lfull)
    viol: dict = {}
    for k, v in res["viol"]:
        if k in viol:
            viol[k]["count"] += v["count"]
        else:
            viol[k] = v
    # minimal character sets only, and option sets only when 'default' is clean for that value class
    keep = {}
    subsumed = 0
    for k, v in viol.items():
        kind, d, on, chars = k
        cs = set(chars)
        smaller = any(k2[0] == kind and k2[1] == d and set(k2[3]) < cs for k2 in viol)
        dup_opt = on != "default" and (kind, d, "default", chars) in viol
        if smaller or dup_opt:
            subsumed += v["count"]
        else:
            keep[k] = v
    for (kind, d, on, chars), v in sorted(keep.items(), key=lambda kv: (len(kv[1]["v"]), kv[0])):
        if Generator.SENTINEL_LINE_BREAK in chars:
            # the generator's internal line-break sentinel appearing literally in a value: one finding per
            # kind, independent of the dialect (the replacement happens in Generator.generate)
            sig = f"C04|{kind}|*|pretty|sentinel"
        else:
            sig = f"C04|{kind}|{d}|{on}|chars={'+'.join(repr(c)[1:-1] for c in chars)}"
        ctx.violation(sig, f"[{d}/{on}] {kind} value {v['v']!r} generated as {v['sql']!r}: {v['problem']}",
                      {"dialect": "" if d == "base" else d, "kind": kind, "opts": on, "value": v["v"]}, v["count"])
    ctx.evidence(
        "exploration",
        {
            "evaluations": res["evaluations"],
            "distinct_nontrivial": res["nontrivial"],
            "rule": f"every string of length <= {L} (string literal, quoted identifier) / <= {Lfull} (all kinds) over the {len(atoms)}-atom adversarial alphabet (computed from all dialects' "
                    "tokenizers) x 34 dialects x kinds (string literal, quoted identifier, identifier without the quoted flag under identify=True / default, value embedded in SELECT..AS..FROM..WHERE, "
                    "comment at 3 positions, raw string, national string) x option sets; plus every comment text of length <= L+1 over the 8 comment-marker atoms; non-trivial = (value, dialect) where the value "
                    "contains a character that is a delimiter / escape / control character in that dialect.",
            "alphabet": atoms,
            "max_len": L,
            "max_len_all_kinds": Lfull,
            "dialects": len(dialects),
            "violations_subsumed": subsumed,
            "exhaustive": True,
            "samples": res["samples"][:4],
        },
        ["a value must come back as exactly ONE string/identifier token with identical text; renderings through function calls are "
         "not accepted as lossless", "UnsupportedError / ParseError from the generator counts as 'declared unsupported'"],
    )


def replay(ctx: Ctx, case: dict) -> bool:
    logging.disable(logging.CRITICAL)
    r = check_value(case["value"], case["dialect"], case["kind"], OPTS[case["opts"]])
    print("value:", repr(case["value"]), "dialect:", case["dialect"] or "base", "kind:", case["kind"], "->", r)
    return r is not None
