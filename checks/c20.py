"""C20 - an AST diff accounts for every node once and is empty only for equal trees.

Sources: G_core k<=1 queries plus deliberately repetitive trees (where similarity ties arise). Targets:
the source's copy; every tree reachable by <= 2 edits from an edit menu applied at every position; all
ordered pairs of a pool of small independent trees. x delta_only x matchings x (f, t) thresholds.
Oracle: exact accounting of every non-identifier node, class agreement of pairs, delta-only consistency,
empty delta <=> equal trees, inputs unaltered (fingerprint + no stale hash), also on exceptions."""
from __future__ import annotations

import itertools
import logging

import sys

import sqlglot
from sqlglot import exp
from sqlglot.diff import Insert, Keep, Move, Remove, Update, diff

diff_mod = sys.modules["sqlglot.diff"]  # `sqlglot.diff` the attribute is the function; the module is needed for the seam

from vlib import fingerprint as fpm
from vlib.grammar_core import statements
from vlib.run import Ctx

REPETITIVE = [
    "a + a", "f(a, a, a)", "a + a + a", "SELECT 1, 1, 1 UNION SELECT 1, 1, 1", "SELECT a, a FROM t JOIN t AS t2 ON t.a = t2.a",
    "SELECT a FROM t WHERE a = 1 AND a = 1", "CASE WHEN a THEN a ELSE a END", "SELECT x, x, y FROM t ORDER BY x, x",
    "(a + 1) * (a + 1)", "SELECT a FROM (SELECT a FROM t) AS s JOIN (SELECT a FROM t) AS s2 ON s.a = s2.a",
    "COALESCE(a, a, 1, 1)", "a IN (1, 1, 2)", "SELECT f(a), f(a), f(b) FROM t", "a AND a OR a AND a",
]
POOL = [
    "a", "1", "'s'", "a + b", "a - b", "f(a)", "f(a, b)", "g(a)", "a = 1", "a AND b", "a OR b", "NOT a", "SELECT a FROM t", "SELECT b FROM t",
    "SELECT a FROM u", "SELECT a, b FROM t", "SELECT a FROM t WHERE a = 1", "SELECT a FROM t WHERE b = 1", "SELECT a AS x FROM t",
    "SELECT a AS y FROM t", "SELECT * FROM t", "SELECT a FROM t JOIN u ON t.a = u.a", "SELECT a FROM t LEFT JOIN u ON t.a = u.a",
    "SELECT a FROM t ORDER BY a", "SELECT a FROM t ORDER BY a DESC", "SELECT a FROM t LIMIT 1", "SELECT DISTINCT a FROM t",
    "SELECT a FROM t GROUP BY a", "SELECT SUM(a) FROM t", "SELECT a FROM t UNION SELECT a FROM u", "WITH c AS (SELECT 1) SELECT * FROM c",
    "CAST(a AS INT)", "CAST(a AS TEXT)", "CASE WHEN a THEN 1 END", "a IN (1, 2)", "a BETWEEN 1 AND 2", "a IS NULL", "x.y", "x.y.z",
    "TRY_CAST(a AS INT)", "HEX(a)", "LOWER(HEX(a))", "SELECT EXPLODE(xs)", "SELECT POSEXPLODE(xs)", "JSON_EXTRACT(a, '$.b')", "JSON_EXTRACT_SCALAR(a, '$.b')",
    "INSERT INTO t VALUES (1)", "DELETE FROM t", "UPDATE t SET a = 1", "CREATE TABLE t (a INT)", "DROP TABLE t",
]


def edit_menu(tree: exp.Expr):
    """(name, path-based mutator) edits applicable to `tree`; each returns a NEW edited copy."""
    from vlib.treeops import node_at, paths

    out = []
    for p, n in paths(tree):
        if isinstance(n, exp.Column) and not isinstance(n.this, exp.Star):
            out.append(("rename_column", p, lambda t, p=p: node_at(t, p).this.set("this", node_at(t, p).name + "_r")))
        if isinstance(n, exp.Literal):
            out.append(("change_literal", p, lambda t, p=p: node_at(t, p).set("this", "7" if not node_at(t, p).is_string else "zz")))
        if isinstance(n, exp.Alias):
            out.append(("change_alias", p, lambda t, p=p: node_at(t, p).set("alias", exp.to_identifier("al_r"))))
        if isinstance(n, exp.Join):
            out.append(("join_side", p, lambda t, p=p: node_at(t, p).set("side", None if node_at(t, p).side else "LEFT")))
        if isinstance(n, exp.Binary):
            def swap(t, p=p):
                b = node_at(t, p)
                l, r = b.this, b.expression
                l.pop(); r.pop()
                b.set("this", r); b.set("expression", l)
            out.append(("swap_operands", p, swap))
        if p and isinstance(n, (exp.Column, exp.Literal, exp.Binary, exp.Func)) and not isinstance(n.parent, (exp.Alias,)) :
            out.append(("wrap", p, lambda t, p=p: node_at(t, p).replace(exp.Anonymous(this="W", expressions=[node_at(t, p).copy()]))))
        for C in related_classes(type(n)):
            # the same args under a sub- or superclass (CAST -> TRY_CAST, HEX -> LOWER_HEX, EXPLODE -> POSEXPLODE ...): the two
            # nodes are different kinds of node although one class derives from the other
            if set(k for k, v in n.args.items() if v is not None and v != []) <= set(C.arg_types) and all(
                    n.args.get(k) is not None for k, req in C.arg_types.items() if req):
                def swap_class(t, p=p, C=C):
                    old = node_at(t, p)
                    new = C(**{k: (v.copy() if isinstance(v, exp.Expr) else [x.copy() if isinstance(x, exp.Expr) else x for x in v] if isinstance(v, list) else v)
                               for k, v in old.args.items() if v is not None})
                    if old.parent is None:
                        raise ValueError("root")
                    old.replace(new)
                try:   # only a swap that yields a well-formed (renderable) tree is an edit
                    probe = tree.copy()
                    swap_class(probe)
                    probe.sql()
                except Exception:
                    continue
                out.append((f"class_{type(n).__name__}_to_{C.__name__}", p, swap_class)) if p else None
        if p and isinstance(n, (exp.Paren, exp.Not, exp.Neg)) :
            out.append(("unwrap", p, lambda t, p=p: node_at(t, p).replace(node_at(t, p).this.copy())))
        for k, v in n.args.items():
            if type(v) is list and v and all(isinstance(x, exp.Expr) for x in v):
                for i in range(len(v)):
                    if len(v) > 1:
                        out.append(("delete_item", p + ((k, i),), lambda t, p=p, k=k, i=i: node_at(t, p).set(k, None, index=i)))
                    out.append(("insert_item", p + ((k, i),), lambda t, p=p, k=k, i=i: node_at(t, p).set(k, exp.column("ins"), index=i, overwrite=False)))
                    if i + 1 < len(v):
                        def move(t, p=p, k=k, i=i):
                            lst = node_at(t, p).args[k]
                            x = lst[i]
                            node_at(t, p).set(k, None, index=i)
                            node_at(t, p).append(k, x)
                        out.append(("move_item", p + ((k, i),), move))
    return out


_REL: dict = {}


def related_classes(cls):
    """Instantiable Expression classes that are a proper sub- or superclass of cls (excluding the abstract bases)."""
    if cls not in _REL:
        abstract = {exp.Expression, exp.Expr, exp.Func, exp.AggFunc, exp.Binary, exp.Unary, exp.Condition, exp.Predicate, exp.Query, exp.SetOperation,
                    exp.DerivedTable, exp.SubqueryPredicate, exp.Connector, exp.Property, exp.ColumnConstraintKind, exp.TimeUnit, exp.IntervalOp, exp.DML, exp.DDL}
        abstract = {c for c in abstract if isinstance(c, type)}
        allc = [c for c in vars(exp).values() if isinstance(c, type) and issubclass(c, exp.Expression)]
        rel = [c for c in allc if c is not cls and c not in abstract and cls not in abstract and (issubclass(c, cls) or issubclass(cls, c))]
        _REL[cls] = sorted(set(rel), key=lambda c: c.__name__)[:4]
    return _REL[cls]


def apply_edits(source: exp.Expr, seq):
    t = source.copy()
    for name, p, fn in seq:
        fn(t)
    return t


def non_ident_nodes(tree):
    return [n for n in fpm.nodes(tree) if not isinstance(n, exp.Identifier)]


def judge(source, target, matchings=None, kw=None, supplied_pairs=(), truthful=True):
    """list of (code, msg)"""
    kw = kw or {}
    probs = []
    fs0, ft0 = fpm.fingerprint(source), fpm.fingerprint(target)
    try:
        full = diff(source, target, matchings=list(matchings) if matchings else None, delta_only=False, **kw)
        delta = diff(source, target, matchings=list(matchings) if matchings else None, delta_only=True, **kw)
    except RecursionError:
        return []
    except Exception as e:
        probs.append(("exception", f"diff raised {type(e).__name__}: {str(e)[:80]}"))
        full = delta = None
    if fpm.fingerprint(source) != fs0 or fpm.fingerprint(target) != ft0:
        probs.append(("input_altered", "an input tree differs structurally after diff"))
    hp = fpm.hash_problems(source) + fpm.hash_problems(target)
    if hp:
        probs.append(("stale_hash", hp[0]))
    lp = fpm.link_problems(source) + fpm.link_problems(target)
    if lp:
        probs.append(("links", lp[0]))
    if full is None:
        return probs
    shared = bool(fpm.node_ids(source) & fpm.node_ids(target))
    src_nodes, tgt_nodes = non_ident_nodes(source), non_ident_nodes(target)
    src_side, tgt_side = [], []
    matched_src = set()
    for e in full:
        if isinstance(e, Remove):
            src_side.append(e.expression)
        elif isinstance(e, Insert):
            tgt_side.append(e.expression)
        elif isinstance(e, (Keep, Update)):
            src_side.append(e.source)
            tgt_side.append(e.target)
            matched_src.add(id(e.source))
            if type(e.source) is not type(e.target) and (id(e.source), id(e.target)) not in supplied_pairs and not shared:
                probs.append(("pair_class", f"{type(e).__name__} pairs {type(e.source).__name__} with {type(e.target).__name__}"))
    if any(isinstance(n, exp.Identifier) for n in src_side + tgt_side):
        pass  # identifiers are allowed to be absent, not forbidden to appear
    for side, nodes, label in ((src_side, src_nodes, "source"), (tgt_side, tgt_nodes, "target")):
        side = [n for n in side if not isinstance(n, exp.Identifier)]
        ids = [id(n) for n in side]
        if len(ids) != len(set(ids)):
            dup = next(n for n in side if ids.count(id(n)) > 1)
            probs.append(("double_count", f"{label} node {type(dup).__name__} `{fpm.safe_sql(dup)}` appears in more than one edit"))
        if shared:
            if len(set(ids)) != len(nodes):
                probs.append(("count", f"{len(set(ids))} {label} nodes accounted for, tree has {len(nodes)}"))
        else:
            want = {id(n) for n in nodes}
            if set(ids) - want:
                probs.append(("foreign_node", f"an edit references a node that is not in the {label} tree"))
            missing = want - set(ids)
            if missing:
                m = next(n for n in nodes if id(n) in missing)
                probs.append(("missing", f"{label} node {type(m).__name__} `{fpm.safe_sql(m)}` appears in no edit"))
    for e in full:
        if isinstance(e, Move) and id(e.source) not in matched_src and not shared:
            probs.append(("move_unmatched", f"Move references unmatched source node {type(e.source).__name__}"))
    # delta_only consistency
    def key(e):
        if isinstance(e, (Insert, Remove)):
            return (type(e).__name__, id(e.expression) if not shared else fpm.safe_sql(e.expression))
        return (type(e).__name__, id(e.source) if not shared else fpm.safe_sql(e.source), id(e.target) if not shared else fpm.safe_sql(e.target))
    a = sorted(map(repr, (key(e) for e in full if not isinstance(e, Keep))))
    b = sorted(map(repr, (key(e) for e in delta)))
    if a != b:
        probs.append(("delta_only", "delta_only=True is not the full script minus Keep"))
    if any(isinstance(e, Keep) for e in delta):
        probs.append(("delta_only", "delta_only=True contains Keep"))
    equal = fpm.fingerprint(source, "eq") == fpm.fingerprint(target, "eq")
    if not truthful:
        return probs  # a deliberately wrong matching is honoured by the library: only the accounting is judged
    if equal and delta:
        probs.append(("nonempty_for_equal", f"equal trees but delta has {len(delta)} edits, first {type(delta[0]).__name__}"))
    if not equal and not delta:
        from checks.c07 import first_diff

        probs.append(("empty_for_different", f"[{first_diff(source, target)}] different trees but the delta is empty"))
    return probs


def worker(shard, nshards, plan, quick):
    logging.disable(logging.CRITICAL)
    res = {"evaluations": 0, "nontrivial": 0, "viol": {}, "samples": []}
    ties = {"n": 0}
    orig_push = diff_mod.heappush
    # tie witness: count pushes whose (dice, parent similarity) key equals an earlier one of the same run
    seen_keys = {}

    def push(heap, item):
        k = item[:2] if isinstance(item, tuple) else None
        if k is not None:
            if k in seen_keys:
                ties["n"] += 1
            seen_keys[k] = 1
        return orig_push(heap, item)

    diff_mod.heappush = push
    idx = 0

    def record(code, edits, sql, tsql, cfg, msg):
        # an empty delta for different trees is keyed by WHERE the trees differ, not by the edit that produced the pair
        key = (code, msg[1:msg.index("]")] if (code == "empty_for_different" and msg.startswith("[")) else "+".join(edits), cfg)
        v = res["viol"].get(key)
        if v is None:
            res["viol"][key] = {"source": sql, "target": tsql, "cfg": cfg, "msg": msg, "count": 1}
        else:
            v["count"] += 1
            if len(sql) + len(tsql) < len(v["source"]) + len(v["target"]):
                v.update(source=sql, target=tsql, msg=msg)

    def run_pair(source, target, edits, ssql):
        tsql = fpm.safe_sql(target)
        configs = [("default", None, {})]
        if quick is False or len(ssql) < 40:
            configs += [("f0t0", None, {"f": 0.0, "t": 0.0}), ("f1t1", None, {"f": 1.0, "t": 1.0})]
        # matchings
        configs.append(("m_root", "root", {}))
        sl = [n for n in fpm.nodes(source) if isinstance(n, (exp.Column, exp.Literal))]
        tl = [n for n in fpm.nodes(target) if isinstance(n, (exp.Column, exp.Literal))]
        if sl and tl:
            configs.append(("m_leaf", "leaf", {}))
        if len(sl) >= 2 and len(tl) >= 2:
            configs.append(("m_crossed", "crossed", {}))
        for cname, mk, kw in configs:
            seen_keys.clear()
            before = ties["n"]
            matchings, supplied = None, ()
            if mk == "root":
                if type(source) is not type(target):
                    continue  # a caller would not declare nodes of different classes as matching
                matchings = [(source, target)]
            elif mk == "leaf":
                s0 = sl[0]
                t0 = next((t for t in tl if type(t) is type(s0)), tl[0])
                matchings = [(s0, t0)]
            elif mk == "crossed":
                matchings = [(sl[0], tl[-1]), (sl[-1], tl[0])]
                if id(tl[-1]) == id(tl[0]) or id(sl[0]) == id(sl[-1]):
                    continue
            if matchings:
                supplied = {(id(a), id(b)) for a, b in matchings}
            res["evaluations"] += 1
            for code, msg in judge(source, target, matchings, kw, supplied, truthful=mk != "crossed"):
                record(code, edits, ssql, tsql, cname, msg)
            if ties["n"] > before:
                res["nontrivial"] += 1

    for unit in plan:
        kind = unit[0]
        if kind == "edits":
            _, sqls, depth = unit
            for sql in sqls:
                idx += 1
                if idx % nshards != shard:
                    continue
                try:
                    source = sqlglot.parse_one(sql)
                except Exception:
                    continue
                run_pair(source, source.copy(), ("copy",), sql)
                run_pair(source, source, ("self",), sql)
                menu = edit_menu(source)
                for e1 in menu:
                    try:
                        t1 = apply_edits(source, [e1])
                    except Exception:
                        continue
                    run_pair(source, t1, (e1[0],), sql)
                    run_pair(t1, source, (e1[0] + "~",), fpm.safe_sql(t1))
                    if depth >= 2:
                        for e2 in edit_menu(t1):
                            try:
                                t2 = apply_edits(t1, [e2])
                            except Exception:
                                continue
                            run_pair(source, t2, tuple(sorted((e1[0], e2[0]))), sql)
                if len(res["samples"]) < 2:
                    res["samples"].append({"source": sql, "one_edit_targets": len(menu)})
        else:
            _, pool = unit
            for a, b in itertools.product(pool, repeat=2):
                idx += 1
                if idx % nshards != shard:
                    continue
                try:
                    s, t = sqlglot.parse_one(a), sqlglot.parse_one(b)
                except Exception:
                    continue
                run_pair(s, t, ("pool",), a)
    diff_mod.heappush = orig_push
    res["viol"] = list(res["viol"].items())
    return res


def run(ctx: Ctx) -> None:
    quick = ctx.quick
    k1 = [s for c, s, t in statements("", 1, start="query")]
    plan = [("edits", REPETITIVE, 2), ("edits", k1 if not quick else k1[::2], 1), ("pool", POOL)]
    if not quick:
        plan.append(("edits", k1[::9], 2))
    if not hasattr(diff_mod, "heappush"):
        from vlib.run import HarnessError
        raise HarnessError("seam missing: sqlglot.diff.heappush")
    res = ctx.run_shards(worker, ctx.jobs * 4, plan, quick)
    viol = {}
    for k, v in res["viol"]:
        if k in viol:
            viol[k]["count"] += v["count"]
        else:
            viol[k] = v
    for (code, edits, cfg), v in sorted(viol.items()):
        sig = f"C20|{code}|{edits}|{cfg}"
        ctx.violation(sig, f"diff(`{v['source']}`, `{v['target']}`) [{cfg}]: {code}: {v['msg']}",
                      {"source": v["source"], "target": v["target"], "cfg": cfg}, v["count"])
    ctx.evidence(
        "exploration",
        {
            "evaluations": res["evaluations"],
            "distinct_nontrivial": res["nontrivial"],
            "rule": "pairs = (source, copy), (source, source), (source, every 1-edit target) both directions, every 2-edit target for the "
                    "repetitive trees, all ordered pairs of a 44-tree pool; x configs {default, f=t=0, f=t=1, root matching, leaf matching, "
                    "crossed matching}; each with delta_only False and True. non-trivial = diffs in which two leaf candidates tied on "
                    "(dice, parent similarity) (observed by wrapping heappush in sqlglot.diff).",
            "exhaustive": True,
            "samples": res["samples"][:3],
        },
        ["Keep/Move order is never compared", "when source and target share nodes the library diffs copies: accounting is then by count"],
    )


def replay(ctx: Ctx, case: dict) -> bool:
    logging.disable(logging.CRITICAL)
    s, t = sqlglot.parse_one(case["source"]), sqlglot.parse_one(case["target"])
    cfg = case["cfg"]
    kw = {"f0t0": {"f": 0.0, "t": 0.0}, "f1t1": {"f": 1.0, "t": 1.0}}.get(cfg, {})
    matchings = None
    sl = [n for n in fpm.nodes(s) if isinstance(n, (exp.Column, exp.Literal))]
    tl = [n for n in fpm.nodes(t) if isinstance(n, (exp.Column, exp.Literal))]
    if cfg == "m_root":
        matchings = [(s, t)]
    elif cfg == "m_leaf":
        matchings = [(sl[0], next((x for x in tl if type(x) is type(sl[0])), tl[0]))]
    elif cfg == "m_crossed":
        matchings = [(sl[0], tl[-1]), (sl[-1], tl[0])]
    supplied = {(id(a), id(b)) for a, b in matchings} if matchings else ()
    probs = judge(s, t, matchings, kw, supplied, truthful=cfg != "m_crossed")
    for p in probs:
        print(p)
    return bool(probs)
