"""C14 - error levels change how problems are reported, never what is produced.

One state per (input, dialect, level); the invariant is a relation over the four runs of one input:
IGNORE/WARN return equal trees; RAISE raises iff WARN logged errors in its first emitting check, with the
same error list and a message obeying max_errors; IMMEDIATE raises the first of them; the parser's level
is restored after every call (also observed behaviourally on reused parsers). Generation: IGNORE/WARN/
RAISE texts are equal whenever returned; RAISE/IMMEDIATE raise iff WARN recorded unsupported messages;
message count obeys max_unsupported."""
from __future__ import annotations

from vlib.paths import SQLGLOT
import itertools
import logging

import sqlglot
from sqlglot import exp
from sqlglot.dialects.dialect import Dialect
from sqlglot.errors import ErrorLevel, ParseError, SqlglotError, TokenError, UnsupportedError
from sqlglot.generator import Generator
from sqlglot.parser import Parser

from vlib import corpus, fingerprint as fpm
from vlib.grammar_core import statements
from vlib.run import Ctx, HarnessError

QUICK_DIALECTS = ["", "bigquery", "clickhouse", "duckdb", "mysql", "postgres", "snowflake", "tsql"]
GEN_SOURCES = ["", "bigquery", "duckdb", "snowflake", "tsql", "mysql", "postgres"]
LEVELS = [ErrorLevel.IGNORE, ErrorLevel.WARN, ErrorLevel.RAISE, ErrorLevel.IMMEDIATE]
MENU = ["SELECT", "FROM", "WHERE", "(", ")", ",", "AS", "AND", "1", "a", "'s'", "JOIN", "ON", "BY", "CASE", "END", "*", "=", ".", "::"]


def all_dialects():
    return [""] + corpus.all_dialects()


class Capture(logging.Handler):
    def __init__(self):
        super().__init__(level=logging.DEBUG)
        self.records = []

    def emit(self, record):
        self.records.append((record.levelno, record.getMessage()))


CAP = Capture()
BOUNDARY = "<<check_errors>>"
TRY_DEPTH = {"n": 0, "error_inside": 0}
UNSUP: list = []   # every message passed to Generator.unsupported (also by inner generators of composite dialects)


def install_seams():
    lg = logging.getLogger("sqlglot")
    if CAP not in lg.handlers:
        lg.addHandler(CAP)
        lg.setLevel(logging.DEBUG)
        lg.propagate = False
    if getattr(Parser.check_errors, "_verif", False):
        return
    for name in ("check_errors", "_try_parse", "raise_error"):
        if not hasattr(Parser, name):
            raise HarnessError(f"seam missing: Parser.{name}")
    orig_check = Parser.check_errors

    def check_errors(self):
        CAP.records.append((0, BOUNDARY))
        return orig_check(self)

    check_errors._verif = True
    Parser.check_errors = check_errors
    orig_try = Parser._try_parse

    def _try_parse(self, *a, **k):
        TRY_DEPTH["n"] += 1
        try:
            return orig_try(self, *a, **k)
        finally:
            TRY_DEPTH["n"] -= 1

    Parser._try_parse = _try_parse
    orig_unsup = Generator.unsupported

    def unsupported(self, message):
        UNSUP.append(message)
        return orig_unsup(self, message)

    Generator.unsupported = unsupported
    orig_raise = Parser.raise_error

    def raise_error(self, *a, **k):
        if TRY_DEPTH["n"] > 0:
            TRY_DEPTH["error_inside"] += 1
        return orig_raise(self, *a, **k)

    Parser.raise_error = raise_error


def first_emitting_block(records):
    """Error messages logged in the first check_errors call that logged any."""
    block = []
    for lvl, msg in records:
        if msg == BOUNDARY and lvl == 0:
            if block:
                return block
            continue
        if lvl >= logging.ERROR:
            block.append(msg)
    return block


def frame_of(exc) -> str:
    import traceback

    for fr in reversed(traceback.extract_tb(exc.__traceback__)):
        if fr.filename.startswith(SQLGLOT):
            return f"{fr.filename.rsplit('/', 1)[-1]}:{fr.name}"
    return "?"


def err_key(e: dict):
    return (e.get("description"), e.get("line"), e.get("col"), e.get("highlight"))


def run_parse(D, tokens, sql, level, max_errors):
    p = D.parser(error_level=level, max_errors=max_errors)
    CAP.records.clear()
    try:
        trees = p.parse(tokens, sql)
        out = ("ok", trees)
    except ParseError as e:
        out = ("parse_error", e)
    except RecursionError:
        out = ("internal", None)
    except Exception as e:
        out = ("internal", e)
    return out, list(CAP.records), p


def judge_parse(sql, dialect, max_errors):
    """list of (code, msg); also returns whether E was non-empty and whether speculative errors occurred."""
    D = Dialect.get_or_raise(dialect or None)
    try:
        tokens = D.tokenize(sql)
    except TokenError:
        return [], False, False, True
    except Exception:
        return [], False, False, True
    probs = []
    TRY_DEPTH["error_inside"] = 0
    res = {}
    for lvl in LEVELS:
        res[lvl] = run_parse(D, tokens, sql, lvl, max_errors)
        p = res[lvl][2]
        if p.error_level != lvl:
            probs.append(("level_not_restored", f"parser.error_level is {p.error_level} after a parse configured with {lvl}"))
    spec = TRY_DEPTH["error_inside"] > 0
    if any(r[0][0] == "internal" for r in res.values()):
        return probs, False, spec, True  # C05's business
    (oi, _, _), (ow, rec_w, _), (orr, _, _), (om, _, _) = (res[l] for l in LEVELS)
    if oi[0] != "ok":
        probs.append(("ignore_raised@" + frame_of(oi[1]), f"IGNORE raised: {str(oi[1])[:80]}"))
    if ow[0] != "ok":
        probs.append(("warn_raised@" + frame_of(ow[1]), f"WARN raised: {str(ow[1])[:80]}"))
    if oi[0] == "ok" and ow[0] == "ok":
        fi = [fpm.fingerprint(t, "eq") if t is not None else None for t in oi[1]]
        fw = [fpm.fingerprint(t, "eq") if t is not None else None for t in ow[1]]
        if fi != fw:
            probs.append(("trees_differ", "IGNORE and WARN return different trees"))
    E = first_emitting_block(rec_w)
    if ow[0] != "ok":
        return probs, bool(E), spec, False
    if (orr[0] == "parse_error") != bool(E):
        probs.append(("raise_iff", f"RAISE {'raised' if orr[0] == 'parse_error' else 'returned'} but WARN logged {len(E)} error(s)"))
    elif E:
        e = orr[1]
        # the WARN log lines are str(ParseError) of each collected error; RAISE carries their dicts
        if len(e.errors) != len(E):
            probs.append(("raise_errors", f"RAISE carries {len(e.errors)} errors, WARN logged {len(E)}"))
        else:
            for d, msg in zip(e.errors, E):
                if d.get("description") and d["description"] not in msg:
                    probs.append(("raise_errors", f"RAISE error {d.get('description')!r} does not correspond to logged {msg[:60]!r}"))
                    break
        # the documented rendering, computed from what WARN logged (one log line per collected error): the first max_errors
        # messages and, iff there are more, a "... and n more" tail (the messages themselves may contain blank lines)
        want_msg = "\n\n".join(E[:max_errors] + ([f"... and {len(E) - max_errors} more"] if len(E) > max_errors else []))
        if str(e) != want_msg:
            probs.append(("max_errors", f"message renders {str(e)[:80]!r}..., expected the first {min(len(E), max_errors)} of {len(E)} logged errors"
                                        + (" and a '... and n more' tail" if len(E) > max_errors else "")))
    if (om[0] == "parse_error") != bool(E):
        probs.append(("immediate_iff", f"IMMEDIATE {'raised' if om[0] == 'parse_error' else 'returned'} but WARN logged {len(E)} error(s)"))
    elif E and orr[0] == "parse_error" and orr[1].errors:
        if not om[1].errors or err_key(om[1].errors[0]) != err_key(orr[1].errors[0]):
            probs.append(("immediate_first", f"IMMEDIATE raised {err_key(om[1].errors[0]) if om[1].errors else None}, first collected error is {err_key(orr[1].errors[0])}"))
    return probs, bool(E), spec, False


def judge_generate(tree, target, max_unsupported):
    D = Dialect.get_or_raise(target or None)
    out = {}
    for lvl in LEVELS:
        g = D.generator(unsupported_level=lvl, max_unsupported=max_unsupported)
        CAP.records.clear()
        UNSUP.clear()
        try:
            sql_out = g.generate(tree.copy())
            out[lvl] = ("ok", sql_out, list(g.unsupported_messages), list(UNSUP) or list(g.unsupported_messages))
        except UnsupportedError as e:
            out[lvl] = ("unsupported", str(e), list(g.unsupported_messages), [])
        except RecursionError:
            return [], False
        except Exception:
            return [], False  # C05
    probs = []
    oi, ow, orr, om = (out[l] for l in LEVELS)
    if oi[0] != "ok" or ow[0] != "ok":
        probs.append(("gen_ignore_warn_raised", "IGNORE or WARN raised UnsupportedError"))
        return probs, True
    texts = {o[1] for o in (oi, ow, orr) if o[0] == "ok"}
    if len(texts) > 1:
        probs.append(("gen_text_differs", "IGNORE / WARN / RAISE return different SQL"))
    # the messages passed to Generator.unsupported under WARN (composite dialects delegate to an inner generator, so the outer
    # instance's list is not the reference; plain logger.warning calls of transforms are not "unsupported" reports)
    W = ow[3]
    if (orr[0] == "unsupported") != bool(W):
        probs.append(("gen_raise_iff", f"RAISE {'raised' if orr[0] == 'unsupported' else 'returned'}, WARN recorded {len(W)} unsupported message(s)"))
    elif W:
        blocks = orr[1].split("\n\n")
        want = min(len(W), max_unsupported) + (1 if len(W) > max_unsupported else 0)
        if len(blocks) != want:
            probs.append(("gen_max_unsupported", f"message renders {len(blocks)} blocks, expected {want}"))
    if (om[0] == "unsupported") != bool(W):
        probs.append(("gen_immediate_iff", f"IMMEDIATE {'raised' if om[0] == 'unsupported' else 'returned'}, WARN recorded {len(W)} message(s)"))
    elif W and om[1] != W[0]:
        probs.append(("gen_immediate_first", f"IMMEDIATE raised {om[1][:50]!r}, first recorded message is {W[0][:50]!r}"))
    return probs, bool(W)


SCRIPT_PARTS = {
    "A": "SELECT a FROM t",
    "B": "SELECT b, 1 FROM u WHERE b = 1",
    "bad_early": "SELECT FROM FROM t",
    "bad_late": "SELECT a FROM t WHERE",
    "bad_spec": "SELECT CAST(a AS) FROM t",
    "bad_two": "SELECT a b c, FROM t WHERE ) (",
    "empty": "",
}


def worker(shard, nshards, plan):
    install_seams()
    res = {"states": 0, "transitions": 0, "nontrivial": 0, "spec": 0, "viol": {}, "samples": [], "gen_unsupported": 0}
    idx = 0

    def record(code, dialect, sql, msg, extra=None):
        key = (code,)
        v = res["viol"].get(key)
        if v is None:
            res["viol"][key] = {"sql": sql, "dialect": dialect, "msg": msg, "extra": extra, "count": 1}
        else:
            v["count"] += 1
            if len(sql) < len(v["sql"]):
                v.update(sql=sql, dialect=dialect, msg=msg, extra=extra)

    for unit in plan:
        kind = unit[0]
        if kind == "parse":
            _, dialect, sqls = unit
            for sql in sqls:
                idx += 1
                if idx % nshards != shard:
                    continue
                for me in (1, 3):
                    probs, nonempty, spec, skipped = judge_parse(sql, dialect, me)
                    res["states"] += 4
                    res["transitions"] += 4
                    if nonempty:
                        res["nontrivial"] += 1
                    if spec:
                        res["spec"] += 1
                    for code, msg in probs:
                        record(code, dialect, sql, msg, {"max_errors": me})
                if len(res["samples"]) < 2 and idx % 1009 == shard:
                    res["samples"].append({"dialect": dialect or "base", "sql": sql})
        elif kind == "generate":
            _, src, sqls, targets = unit
            for sql in sqls:
                idx += 1
                if idx % nshards != shard:
                    continue
                try:
                    tree = sqlglot.parse_one(sql, read=src or None)
                except Exception:
                    continue
                for tgt in targets:
                    for mu in (1, 3):
                        probs, had = judge_generate(tree, tgt, mu)
                        res["states"] += 4
                        res["transitions"] += 4
                        if had:
                            res["gen_unsupported"] += 1
                        for code, msg in probs:
                            record(code, src, sql, msg, {"target": tgt, "max_unsupported": mu})
        elif kind == "reuse":
            _, dialect, inputs = unit
            D = Dialect.get_or_raise(dialect or None)
            for lvl in LEVELS:
                for hist in itertools.product(inputs, repeat=3):
                    idx += 1
                    if idx % nshards != shard:
                        continue
                    p = D.parser(error_level=lvl)
                    last = None
                    for sql in hist:
                        try:
                            last = ("ok", [fpm.fingerprint(t, "eq") if t is not None else None for t in p.parse(D.tokenize(sql), sql)])
                        except ParseError as e:
                            last = ("err", [err_key(d) for d in e.errors])
                        except Exception:
                            last = ("internal",)
                    fresh = D.parser(error_level=lvl)
                    try:
                        want = ("ok", [fpm.fingerprint(t, "eq") if t is not None else None for t in fresh.parse(D.tokenize(hist[-1]), hist[-1])])
                    except ParseError as e:
                        want = ("err", [err_key(d) for d in e.errors])
                    except Exception:
                        want = ("internal",)
                    res["states"] += 1
                    res["transitions"] += 3
                    if p.error_level != lvl:
                        record("level_not_restored", dialect, " ; ".join(hist), f"error_level {p.error_level} after history under {lvl}")
                    if last != want:
                        record("reused_parser_differs", dialect, " ; ".join(hist), f"a parser reused for {hist!r} under {lvl.name} answers differently from a fresh one on the last input",
                               {"history": list(hist), "level": lvl.name})
    res["viol"] = list(res["viol"].items())
    return res


def mutants1(sql, D):
    try:
        spans = [(t.start, t.end + 1) for t in D.tokenize(sql)]
    except Exception:
        return []
    out = []
    for i, (a, b) in enumerate(spans):
        out.append(sql[:a] + sql[b:])
        out.append(sql[:b] + " " + sql[a:b] + sql[b:])
        for m in MENU:
            out.append(sql[:a] + m + " " + sql[a:])
    return out


def run(ctx: Ctx) -> None:
    quick = ctx.quick
    dialects = QUICK_DIALECTS if quick else all_dialects()
    plan = []
    for d in dialects:
        D = Dialect.get_or_raise(d or None)
        k1 = [s for c, s, t in statements(d, 1)]
        seeds = [s for c, s, t in statements(d, 0)] + ["SELECT a, b FROM t JOIN u ON t.a = u.a WHERE c = 1 ORDER BY a"]
        muts = [m for s in seeds for m in mutants1(s, D)]
        muts1 = [m for s in k1[::(6 if quick else 1)] for m in mutants1(s, D)[::(3 if quick else 1)]]
        names = list(SCRIPT_PARTS)
        scripts = ["; ".join(SCRIPT_PARTS[n] for n in combo) for ln in (1, 2, 3) for combo in itertools.product(names, repeat=ln)]
        plan.append(("parse", d, k1 + muts + muts1 + scripts))
        plan.append(("reuse", d, [SCRIPT_PARTS[n] for n in ("A", "bad_early", "bad_spec", "bad_late", "B")]))
    # every statement of the repository's dialect tests in its own dialect: as written and with every single-token deletion /
    # duplication (parse relation), and generated into the main targets (quick) / every target (thorough)
    by_d = {}
    for d, sql in corpus.dialect_test_sql():
        by_d.setdefault(d, []).append(sql)
    main_targets = ["", "duckdb", "snowflake", "bigquery", "tsql", "mysql", "postgres", "spark", "oracle", "clickhouse", "sqlite", "presto"]
    for d, sqls in sorted(by_d.items()):
        D = Dialect.get_or_raise(d or None)
        for i in range(0, len(sqls), 100):
            chunk = sqls[i:i + 100]
            muts = []
            for s_ in chunk:
                try:
                    spans = [(t.start, t.end + 1) for t in D.tokenize(s_)]
                except Exception:
                    continue
                for a, b in spans:
                    muts.append(s_[:a] + s_[b:])
                    muts.append(s_[:b] + " " + s_[a:b] + s_[b:])
            plan.append(("parse", d, chunk + muts))
            plan.append(("generate", d, chunk, sorted(set(main_targets + [d])) if quick else all_dialects()))
    from vlib.grammar_clauses import clause_statements

    cl = [sql for sql, tags in clause_statements()]
    for i in range(0, len(cl), 200):
        plan.append(("generate", "", cl[i:i + 200], main_targets if quick else all_dialects()))
        plan.append(("parse", "", cl[i:i + 200]))
    targets = all_dialects()
    for src in (GEN_SOURCES if quick else dialects):
        k1 = [s for c, s, t in statements(src, 1)]
        plan.append(("generate", src, k1 if not quick else k1[::2], targets))
    res = ctx.run_shards(worker, ctx.jobs * 4, plan)
    viol = {}
    for k, v in res["viol"]:
        if k in viol:
            viol[k]["count"] += v["count"]
            if len(v["sql"]) < len(viol[k]["sql"]):
                viol[k].update(sql=v["sql"], dialect=v["dialect"], msg=v["msg"], extra=v["extra"])
        else:
            viol[k] = v
    for (code,), v in sorted(viol.items()):
        ctx.violation(f"C14|{code}", f"[{v['dialect'] or 'base'}] `{v['sql']}` {v['extra'] or ''}: {v['msg']}",
                      {"dialect": v["dialect"], "sql": v["sql"], "extra": v["extra"], "code": code}, v["count"])
    ctx.evidence(
        "model_checking",
        {
            "states": res["states"],
            "transitions": res["transitions"],
            "traces_validated_against_impl": res["transitions"],
            "evaluations": res["transitions"],
            "distinct_nontrivial": res["nontrivial"] + res["gen_unsupported"],
            "rule": "states = (input, dialect, level) runs; inputs = G_core k<=1, every 1-token mutant (delete / duplicate / insert of 20 menu "
                    "tokens) of the simplest seeds and a slice of k=1, every script of <= 3 statements over 7 parts (valid, invalid early / "
                    "late / inside a speculative branch / twice, empty), x max_errors {1,3}; generation of G_core k<=1 trees from 7 source "
                    "dialects into all 34 targets x 4 levels x max_unsupported {1,3}; every statement of tests/dialects/*.py in its own dialect "
                    "(as written + every 1-token deletion / duplication for the parse relation; generated into 12 main targets in quick, all "
                    "in thorough); G_clauses (every subset of optional clauses) parsed in base and generated into the same targets; reuse histories of length 3 on one Parser. "
                    "non-trivial = inputs for which WARN logged errors / generations that recorded unsupported messages.",
            "inputs_with_error_inside_speculative_branch": res["spec"],
            "generations_with_unsupported": res["gen_unsupported"],
            "exhaustive": True,
            "samples": res["samples"][:4],
        },
        ["inputs on which any level raises an internal exception are C05's business and skipped",
         "only the first check_errors call that logged anything defines the expected error list (later calls re-log cumulatively)"],
    )


def replay(ctx: Ctx, case: dict) -> bool:
    install_seams()
    extra = case.get("extra") or {}
    code = case.get("code", "")
    found = []
    if code.startswith("gen_"):
        tree = sqlglot.parse_one(case["sql"], read=case["dialect"] or None)
        probs, _ = judge_generate(tree, extra.get("target", ""), extra.get("max_unsupported", 3))
        found = probs
    elif code in ("reused_parser_differs",) or "history" in extra:
        res = worker(0, 1, [("reuse", case["dialect"], sorted(set(extra.get("history", []))))])
        found = [(k, v["msg"]) for k, v in res["viol"]]
    else:
        probs, *_ = judge_parse(case["sql"], case["dialect"], extra.get("max_errors", 3))
        found = probs
    for f in found:
        print(f)
    return bool(found)
