"""C01 - same-dialect round trip is a fixpoint in every dialect.

(a) E1 enumeration of G_core (cost <= k) x all registered dialects x generator option sets:
    parse(s) -> s1 -> parse(s1) must succeed -> s2 == s1; base dialect: the two parses are equal trees and
    time-format literals survive.
(b) all format strings of <= n atoms over each dialect's own TIME_MAPPING keys, their non-key proper
    prefixes, separators, '%', a letter and a digit: format_time must agree with an independent greedy
    longest-match reference and native->python->native must be idempotent after the first step.
"""
from __future__ import annotations

import itertools
import logging
import re

import sqlglot
from sqlglot import exp
from sqlglot.dialects.dialect import Dialect
from sqlglot.errors import SqlglotError
from sqlglot.time import format_time

from vlib import corpus, fingerprint as fpm
from vlib.grammar_core import statements
from vlib.grammar_clauses import clause_statements
from vlib.run import Ctx

OPTSETS = {
    "default": {},
    "pretty": {"pretty": True},
    "identify": {"identify": True},
    "normalize": {"normalize": True},
}
K2_QUICK = ["", "sqlite", "duckdb", "postgres", "mysql", "bigquery", "snowflake", "tsql", "spark", "clickhouse", "oracle"]


def all_dialects():
    return [""] + corpus.all_dialects()


def roundtrip(sql: str, dialect: str, opts: dict):
    """Returns None (not in the space), ("ok", changed) or ("viol", kind, detail...)."""
    d = dialect or None
    try:
        tree = sqlglot.parse_one(sql, read=d)
    except SqlglotError:
        return None
    except Exception:
        return None  # internal exception: C05's business
    try:
        s1 = tree.sql(d, **opts)
    except Exception:
        return None  # generation failure: C05 / C14
    try:
        tree1 = sqlglot.parse_one(s1, read=d)
    except SqlglotError as e:
        return ("viol", "reparse", s1, str(e).splitlines()[0][:120])
    except Exception as e:
        return ("viol", "reparse", s1, type(e).__name__)
    try:
        s2 = tree1.sql(d, **opts)
    except Exception as e:
        return ("viol", "regenerate", s1, type(e).__name__)
    if s2 != s1:
        return ("viol", "nonfixpoint", s1, s2)
    if not dialect and not opts:
        if not (tree1 == tree) or fpm.fingerprint(tree1, "eq") != fpm.fingerprint(tree, "eq"):
            return ("viol", "tree_differs", s1, "parse(s1) != parse(s)")
        f0 = [n.args["format"].this for n in tree.find_all(exp.Func) if isinstance(n.args.get("format"), exp.Literal)]
        f1 = [n.args["format"].this for n in tree1.find_all(exp.Func) if isinstance(n.args.get("format"), exp.Literal)]
        if f0 != f1:
            return ("viol", "timefmt_changed", s1, f"{f0} -> {f1}")
    return ("ok", s1 != sql)


OPERATOR_FAMILIES = ("un.", "bin.", "pred.", "paren", "case.", "cast.dcolon", "acc.", "fn.abs", "fn.coalesce", "lit.interval", "agg.sum",
                     "fn.at_time_zone", "lit.neg")


def operator_expressions(dialect, k):
    """Expression-level derivations (SELECT <e> FROM t) built only from the operator / predicate families - the part
    the precedence ladder and its mirror in the generator look at."""
    out = []
    for cost, e, tags in statements(dialect, k, start="expr"):
        if cost == k and all(t.startswith(OPERATOR_FAMILIES) for t in tags):
            out.append((cost, f"SELECT {e} FROM t", tags))
    return out


def worker_a(shard, nshards, plan):
    logging.disable(logging.CRITICAL)
    res = {"evaluations": 0, "parsed": 0, "changed": set(), "violations": {}, "samples": [], "unparsed": 0}
    for dialect, k, optnames in plan:
        if k == "clauses":
            items = [(len(tags), sql, tags) for sql, tags in clause_statements()]
        else:
            items = statements(dialect, k) if k > 0 else operator_expressions(dialect, -k)
        for i, (cost, sql, tags) in enumerate(items):
            if i % nshards != shard:
                continue
            for on in optnames:
                r = roundtrip(sql, dialect, OPTSETS[on])
                res["evaluations"] += 1
                if r is None:
                    res["unparsed"] += 1
                    continue
                res["parsed"] += 1
                if r[0] == "ok":
                    if r[1]:
                        res["changed"].add(hash((dialect, sql)) & 0xFFFFFFFFFF)
                    continue
                _, kind, s1, detail = r
                key = (kind, dialect or "base", on, tags)
                v = res["violations"].get(key)
                if v is None:
                    res["violations"][key] = {"count": 1, "sql": sql, "s1": s1, "detail": detail, "cost": cost}
                else:
                    v["count"] += 1
        if len(res["samples"]) < 3 and items:
            res["samples"].append({"dialect": dialect or "base", "k": k, "sql": items[(shard * 37) % len(items)][1]})
    res["violations"] = [(k, v) for k, v in res["violations"].items()]
    return res


# ------------------------------------------------------------------ (c) dialect-test expressions in operator contexts

CONTEXTS = {
    "neg": "SELECT -{e}", "not": "SELECT NOT {e}", "mul": "SELECT {e} * 2", "lmul": "SELECT 2 * {e}", "rsub": "SELECT 1 - {e}", "eq": "SELECT {e} = 1",
    "is_null": "SELECT {e} IS NULL", "and": "SELECT {e} AND x", "or_and": "SELECT x AND {e} OR y", "cast": "SELECT CAST({e} AS INT)", "dcolon": "SELECT {e}::INT",
    "in": "SELECT {e} IN (1, 2)", "between": "SELECT {e} BETWEEN 1 AND 2", "paren": "SELECT ({e})", "arg": "SELECT COALESCE({e}, 1)", "where": "SELECT 1 FROM t WHERE {e}",
    "concat": "SELECT {e} || 'x'", "case": "SELECT CASE WHEN {e} THEN 1 ELSE {e} END", "alias": "SELECT {e} AS c FROM t ORDER BY {e}", "bracket": "SELECT ({e})[1]",
    "dot": "SELECT ({e}).f", "window": "SELECT SUM({e}) OVER (PARTITION BY {e} ORDER BY {e})", "like": "SELECT {e} LIKE 'a%'", "neg_paren": "SELECT -({e})",
}


def worker_c(shard, nshards, items):
    """Every projection expression of the repository's dialect-test SELECT statements, rendered by its dialect and placed
    (textually, unparenthesised) into every operator context; the result must round-trip like any other statement."""
    logging.disable(logging.CRITICAL)
    res = {"evaluations": 0, "parsed": 0, "changed": set(), "violations": {}, "samples": [], "unparsed": 0, "expressions": 0}
    for i, (dialect, sql) in enumerate(items):
        if i % nshards != shard:
            continue
        d = dialect or None
        try:
            tree = sqlglot.parse_one(sql, read=d)
        except Exception:
            continue
        if not isinstance(tree, exp.Select):
            continue
        seen = set()
        for proj in tree.expressions[:3]:
            e = proj.unalias()
            if isinstance(e, (exp.Star, exp.Column, exp.Literal)) or e.find(exp.Star) and isinstance(e, exp.Column):
                continue
            try:
                etext = e.sql(d)
            except Exception:
                continue
            if etext in seen or len(etext) > 200:
                continue
            seen.add(etext)
            res["expressions"] += 1
            for cname, tmpl in CONTEXTS.items():
                r = roundtrip(tmpl.format(e=etext), dialect, {})
                res["evaluations"] += 1
                if r is None:
                    res["unparsed"] += 1
                    continue
                res["parsed"] += 1
                if r[0] == "ok":
                    continue
                _, kind, s1, detail = r
                key = (kind, dialect or "base", "default", ("ctx." + cname, "e." + type(e).__name__))
                v = res["violations"].get(key)
                if v is None or len(tmpl.format(e=etext)) < len(v["sql"]):
                    res["violations"][key] = {"count": (v["count"] if v else 0) + 1, "sql": tmpl.format(e=etext), "s1": s1, "detail": detail, "cost": 3}
                else:
                    v["count"] += 1
        if len(res["samples"]) < 2 and seen:
            res["samples"].append({"dialect": dialect or "base", "statement": sql[:120], "expressions": sorted(seen)[:2]})
    res["violations"] = [(k, v) for k, v in res["violations"].items()]
    return res


# ------------------------------------------------------------------ (b) time formats

def greedy_reference(fmt: str, mapping: dict[str, str]) -> str:
    """Independent longest-match conversion: at every position take the longest mapping key that matches,
    else copy one character."""
    keys = sorted(mapping, key=len, reverse=True)
    out, i = [], 0
    while i < len(fmt):
        for k in keys:
            if fmt.startswith(k, i):
                out.append(mapping[k])
                i += len(k)
                break
        else:
            out.append(fmt[i])
            i += 1
    return "".join(out)


def format_atoms(mapping: dict[str, str]) -> list[str]:
    keys = sorted(mapping)
    prefixes = sorted({k[:i] for k in keys for i in range(1, len(k))} - set(keys))
    return keys + prefixes + ["-", "/", ":", ".", " ", "T", "%", "x", "7"]


def worker_b(shard, nshards, dialects, n):
    res = {"evaluations": 0, "nontrivial": 0, "violations": {}, "samples": [], "distinct_mappings": 0}
    seen_mappings = set()
    for dialect in dialects:
        d = Dialect.get_or_raise(dialect or None)
        for mname, mapping, trie in (("TIME_MAPPING", d.TIME_MAPPING, d.TIME_TRIE),
                                     ("INVERSE_TIME_MAPPING", d.INVERSE_TIME_MAPPING, d.INVERSE_TIME_TRIE)):
            if not mapping:
                continue
            # dialects that share a mapping (same keys and values) are enumerated once: format_time is a pure
            # function of (string, mapping, trie) and the trie is built from the mapping by the metaclass
            mkey = tuple(sorted(mapping.items()))
            if mkey in seen_mappings and trie == new_trie_of(mapping):
                continue
            seen_mappings.add(mkey)
            if shard == 0:
                res["distinct_mappings"] += 1
            atoms = format_atoms(mapping)
            idx = 0
            for ln in range(1, n + 1):
                for combo in itertools.product(atoms, repeat=ln):
                    idx += 1
                    if idx % nshards != shard:
                        continue
                    fmt = "".join(combo)
                    res["evaluations"] += 1
                    got = format_time(fmt, mapping, trie)
                    want = greedy_reference(fmt, mapping)
                    if got != fmt:
                        res["nontrivial"] += 1
                    if got != want:
                        shape = mis_shape(combo, mapping)
                        key = ("format_time", dialect or "base", mname, shape)
                        v = res["violations"].get(key)
                        if v is None:
                            res["violations"][key] = {"count": 1, "fmt": fmt, "got": got, "want": want}
                        else:
                            v["count"] += 1
            if len(res["samples"]) < 2:
                res["samples"].append({"dialect": dialect or "base", "mapping": mname, "atoms": len(atoms)})
    res["violations"] = [(k, v) for k, v in res["violations"].items()]
    return res


def new_trie_of(mapping):
    from sqlglot.trie import new_trie

    return new_trie(mapping)


def mis_shape(combo, mapping):
    return "+".join("key" if a in mapping else ("prefix" if any(k.startswith(a) for k in mapping) else "other") for a in combo)


def collect(pairs) -> dict:
    out: dict = {}
    for k, v in pairs:
        if k in out:
            out[k]["count"] += v["count"]
        else:
            out[k] = dict(v)
    return out


def minimal_only(viol: dict) -> tuple[dict, int]:
    """Keep a violation only if no violation of the same (kind, dialect) has a strictly smaller tag set."""
    by_group: dict = {}
    for key in viol:
        kind, dialect, on, tags = key
        by_group.setdefault((dialect,), []).append(key)
    keep, dropped = {}, 0
    for group, keys in by_group.items():
        tagsets = {k: set(k[3]) for k in keys}
        default_fail = {(k[0], k[3]) for k in keys if k[2] == "default"}
        for k in keys:
            if k[2] != "default" and ((k[0], k[3]) in default_fail or any(d[1] == k[3] for d in default_fail)):
                # the same statement already fails with default options: the option set adds nothing
                dropped += viol[k]["count"]
            elif any(tagsets[o] < tagsets[k] for o in keys if o is not k):
                dropped += viol[k]["count"]
            else:
                keep[k] = viol[k]
    return keep, dropped


def run(ctx: Ctx) -> None:
    quick = ctx.quick
    dialects = all_dialects()
    plan = []
    for d in dialects:
        plan.append((d, 1, tuple(OPTSETS)))
    if quick:
        # every pair of operator-family constructs (k = 2 at expression level) in the base dialect and four more;
        # the thorough tier runs the complete k = 2 statement space in all dialects
        for d in ("", "duckdb", "postgres", "mysql", "tsql"):
            plan.append((d, -2, ("default",)))
    else:
        for d in dialects:
            plan.append((d, 2, ("default", "pretty") if d in K2_QUICK else ("default",)))
    # every subset of the optional clauses of every statement kind (SELECT, DELETE, UPDATE, INSERT, MERGE, CREATE, DROP, ALTER,
    # set operations, window specifications, aggregates, joins, FROM items) in every dialect
    for d in dialects:
        plan.append((d, "clauses", ("default", "pretty") if (not quick or not d) else ("default",)))
    res = ctx.run_shards(worker_a, ctx.jobs * 2, plan)
    resc = ctx.run_shards(worker_c, ctx.jobs * 2, corpus.dialect_test_sql())
    viol, dropped = minimal_only(collect(res["violations"]))
    violc = collect(resc["violations"])
    # a context finding is reported once per (kind, dialect, expression class): the contexts it occurs in are listed in the text
    byc: dict = {}
    for (kind, dialect, on, tags), v in violc.items():
        g = byc.setdefault((kind, dialect, on, (tags[1],)), dict(v, ctxs=[]))
        g["ctxs"].append(tags[0])
        if len(v["sql"]) < len(g["sql"]):
            g.update(sql=v["sql"], s1=v["s1"], detail=v["detail"])
        g["count"] = g.get("count", 0) + v["count"]
    for k, g in byc.items():
        g["detail"] = f"{g['detail']}; contexts: {', '.join(sorted(set(g['ctxs'])))}"
        viol[(k[0], k[1], k[2], ("ctx",) + k[3])] = g
    for (kind, dialect, on, tags), v in sorted(viol.items(), key=lambda kv: (kv[1]["cost"], kv[0])):
        sig = f"C01|{kind}|{dialect}|{on}|{'+'.join(tags)}"
        ctx.violation(sig, f"[{dialect}/{on}] `{v['sql']}` -> `{v['s1']}` : {kind} ({v['detail']})",
                      {"part": "a", "dialect": "" if dialect == "base" else dialect, "opts": on, "sql": v["sql"], "kind": kind},
                      v["count"])
    nb = 3 if quick else 4
    resb = ctx.run_shards(worker_b, ctx.jobs, dialects, nb)
    for (kind, dialect, mname, shape), v in sorted(collect(resb["violations"]).items()):
        sig = f"C01|{kind}|{dialect}|{mname}|{shape}"
        ctx.violation(sig, f"[{dialect}] format_time({v['fmt']!r}, {mname}) = {v['got']!r}, greedy longest-match reference = {v['want']!r}",
                      {"part": "b", "dialect": "" if dialect == "base" else dialect, "mapping": mname, "fmt": v["fmt"]}, v["count"])
    ctx.evidence(
        "exploration",
        {
            "evaluations": res["evaluations"] + resb["evaluations"] + resc["evaluations"],
            "distinct_nontrivial": len(res["changed"]) + resb["nontrivial"],
            "rule": "E1: every G_core derivation with cost <= k (k=1: all dialects x 4 option sets; k=2: "
                    + ("every pair of operator / predicate / unary / cast / CASE constructs at expression level in the base dialect and 4 more" if quick else "all dialects") + ") round-tripped parse->generate->parse->generate; "
                    "plus G_clauses: every subset of the optional clauses of each statement kind (" + str(len(clause_statements())) + " statements) in every dialect; "
                    "non-trivial = distinct (dialect, statement) whose generated text differs from the input (the generator "
                    "normalised something); plus every projection expression of the dialect-test SELECT statements placed into each of "
                    + str(len(CONTEXTS)) + " operator contexts in its own dialect; plus every time-format string of <= n atoms per dialect mapping checked against a "
                    "greedy longest-match reference (non-trivial = format_time changed the string).",
            "roundtrips_in_space": res["parsed"] + resc["parsed"],
            "dialect_test_expressions_in_contexts": {"expressions": resc["expressions"], "contexts": len(CONTEXTS), "roundtrips": resc["parsed"]},
            "not_parsed_in_dialect": res["unparsed"],
            "format_strings": resb["evaluations"],
            "format_atoms_n": nb,
            "distinct_time_mappings": resb.get("distinct_mappings", 0),
            "dialects": len(dialects),
            "violations_subsumed_by_smaller_tagset": dropped,
            "exhaustive": True,
            "samples": res["samples"][:4] + resb["samples"][:2],
        },
        ["statements that raise a sqlglot error (or any exception: C05) when parsed in a dialect are outside the space",
         "violations whose tag set strictly contains the tag set of another violation in the same dialect are counted, not reported"],
    )


def replay(ctx: Ctx, case: dict) -> bool:
    logging.disable(logging.CRITICAL)
    if case["part"] == "a":
        r = roundtrip(case["sql"], case["dialect"], OPTSETS[case["opts"]])
        print("input :", case["sql"], "dialect:", case["dialect"] or "base", "opts:", case["opts"])
        print("result:", r)
        return bool(r and r[0] == "viol")
    d = Dialect.get_or_raise(case["dialect"] or None)
    mapping = getattr(d, case["mapping"])
    trie = d.TIME_TRIE if case["mapping"] == "TIME_MAPPING" else d.INVERSE_TIME_TRIE
    got, want = format_time(case["fmt"], mapping, trie), greedy_reference(case["fmt"], mapping)
    print("format_time:", repr(got), "reference:", repr(want))
    return got != want
